"""Shared machinery of the checks: build (Params.v from /repo, Coq, extraction, driver), proof
obligations (compiled property files, Print Assumptions, grep gate), driver I/O, evidence,
violations/replays, known findings."""
import fcntl
import hashlib
import json
import os
import random
import re
import subprocess
import sys
import time
import warnings

warnings.filterwarnings("ignore")

# exact integer arithmetic on huge operands (C05): no limit on int <-> str conversion
if hasattr(sys, "set_int_max_str_digits"):
    sys.set_int_max_str_digits(0)
VERIF = os.path.dirname(os.path.dirname(os.path.abspath(__file__)))
REPO = os.environ.get("VERIF_REPO", "/repo")
BUILD = os.path.join(VERIF, "_build")
COQ = os.path.join(VERIF, "coq")
PY = "/venv/bin/python"
os.makedirs(BUILD, exist_ok=True)

ALLOWED_AXIOMS = {
    # the standard library's real-number axioms (theorems that mention R)
    "ClassicalDedekindReals.sig_not_dec",
    "ClassicalDedekindReals.sig_forall_dec",
    "FunctionalExtensionality.functional_extensionality_dep",
    "Classical_Prop.classic",
}

TRUSTED_BASE = [
    "Coq 8.16.1 kernel (coqc; vm_compute used, native_compute not used)",
    "harness/gen_params.py (translator of the tables in Params.v; exhaustive evaluation of the tokenizer classifiers over all code points)",
    "extraction: ExtrOcamlBasic only (bool, option, unit, list, prod, sumbool), no Extract Constant; OCaml 4.13.1; extraction/main.ml",
    "correspondence check: harness generators, canonicalisation, CPython 3.12 / numpy as the implementation's runtime",
    "hand-written executable model of mathy_core (coq/theories), tied to /repo by the correspondence suites",
    "specifications read, not proved: statements in coq/properties, spec definitions they mention",
]


def log(*a):
    print(*a, file=sys.stderr, flush=True)


def force_repo_import():
    """Make `import mathy_core` resolve to /repo's working tree."""
    os.environ["PYTHONHASHSEED"] = os.environ.get("PYTHONHASHSEED", "0")
    if sys.path[0] != REPO:
        sys.path.insert(0, REPO)
    for m in list(sys.modules):
        if m == "mathy_core" or m.startswith("mathy_core."):
            f = getattr(sys.modules[m], "__file__", "") or ""
            if not os.path.realpath(f).startswith(os.path.realpath(REPO)):
                del sys.modules[m]
    import mathy_core

    assert os.path.realpath(mathy_core.__file__).startswith(os.path.realpath(REPO)), mathy_core.__file__


def repo_hash():
    h = hashlib.sha256()
    root = os.path.join(REPO, "mathy_core")
    for d, dirs, files in sorted(os.walk(root)):
        dirs.sort()
        if "__pycache__" in d:
            continue
        for f in sorted(files):
            if f.endswith((".py", ".json")):
                p = os.path.join(d, f)
                h.update(p.encode())
                with open(p, "rb") as fh:
                    h.update(fh.read())
    with open(os.path.join(VERIF, "harness", "gen_params.py"), "rb") as fh:
        h.update(fh.read())
    return h.hexdigest()


def run(cmd, cwd=None, timeout=3600, inp=None, env=None):
    p = subprocess.run(cmd, cwd=cwd, input=inp, capture_output=True, text=True, timeout=timeout, env=env)
    return p.returncode, p.stdout, p.stderr


class Build:
    def __init__(self):
        self.translate_error = None
        self.make_rc = None
        self.make_log = ""
        self.driver_ok = False
        self.driver_error = None
        self.rebuilt = False

    def prop_ok(self, prop):
        """properties/<prop>.vo is up to date w.r.t. all its sources (make -q)."""
        vo = f"properties/{prop}.vo"
        if not os.path.exists(os.path.join(COQ, vo)):
            return False
        rc, _, _ = run(["make", "-q", vo], cwd=COQ, timeout=300)
        return rc == 0


def _newest(paths):
    return max((os.path.getmtime(p) for p in paths if os.path.exists(p)), default=0)


def ensure_build():
    """Regenerate Params.v from /repo, rebuild Coq (full .vo build), extraction and the driver.
    Serialised by a lock so that checks may run in parallel."""
    b = Build()
    lock = open(os.path.join(BUILD, ".lock"), "w")
    fcntl.flock(lock, fcntl.LOCK_EX)
    try:
        # 1. Params.v (cached by content hash of /repo's sources)
        h = repo_hash()
        hfile = os.path.join(BUILD, "params.hash")
        params = os.path.join(COQ, "theories", "Params.v")
        cached = os.path.exists(hfile) and open(hfile).read().split("\n")[0] == h and os.path.exists(params)
        errfile = os.path.join(BUILD, "params.err")
        if cached and os.path.exists(errfile):
            b.translate_error = open(errfile).read()
        if not cached:
            new = os.path.join(BUILD, "Params.v.new")
            env = dict(os.environ, PYTHONPATH=REPO, PYTHONHASHSEED="0", VERIF_REPO=REPO)
            rc, out, err = run([PY, os.path.join(VERIF, "harness", "gen_params.py"), new], env=env, timeout=600)
            if rc != 0:
                b.translate_error = (out + err)[-2000:]
                open(errfile, "w").write(b.translate_error)
            else:
                if os.path.exists(errfile):
                    os.remove(errfile)
                txt = open(new).read()
                if not os.path.exists(params) or open(params).read() != txt:
                    open(params, "w").write(txt)
            if rc == 0 or os.path.exists(params):
                open(hfile, "w").write(h + "\n")
        # 2. Coq
        mk = os.path.join(COQ, "Makefile")
        cp = os.path.join(COQ, "_CoqProject")
        if not os.path.exists(mk) or os.path.getmtime(mk) < os.path.getmtime(cp):
            run(["coq_makefile", "-f", "_CoqProject", "-o", "Makefile"], cwd=COQ)
        rcq, _, _ = run(["make", "-q"], cwd=COQ, timeout=300)
        if rcq != 0:
            b.rebuilt = True
            rc, out, err = run(["timeout", "3000", "make", "-k", "-j16"], cwd=COQ, timeout=3100)
            b.make_rc = rc
            b.make_log = out + err
            open(os.path.join(BUILD, "make.log"), "w").write(b.make_log)
        else:
            b.make_rc = 0
            ml = os.path.join(BUILD, "make.log")
            b.make_log = open(ml).read() if os.path.exists(ml) else ""
        # 3. extraction + driver (needs only coq/theories)
        ex = os.path.join(BUILD, "extract")
        os.makedirs(ex, exist_ok=True)
        drv = os.path.join(ex, "driver")
        theories = [os.path.join(COQ, "theories", f) for f in os.listdir(os.path.join(COQ, "theories")) if f.endswith(".vo")]
        srcs = theories + [os.path.join(COQ, "extraction", "Extract.v"), os.path.join(COQ, "extraction", "main.ml")]
        if not os.path.exists(drv) or os.path.getmtime(drv) < _newest(srcs):
            rc, out, err = run(["timeout", "600", "coqc", "-Q", os.path.join(COQ, "theories"), "Mathy",
                                os.path.join(COQ, "extraction", "Extract.v")], cwd=ex, timeout=700)
            if rc != 0:
                b.driver_error = "extraction failed: " + (out + err)[-1500:]
            else:
                import shutil

                shutil.copy(os.path.join(COQ, "extraction", "main.ml"), os.path.join(ex, "main.ml"))
                rc, out, err = run(["ocamlfind", "ocamlopt", "-w", "-a", "model.mli", "model.ml", "main.ml", "-o", "driver.new"], cwd=ex, timeout=600)
                if rc != 0:
                    b.driver_error = "ocaml build failed: " + (out + err)[-1500:]
                else:
                    os.replace(os.path.join(ex, "driver.new"), drv)
        b.driver_ok = os.path.exists(drv) and b.driver_error is None
    finally:
        fcntl.flock(lock, fcntl.LOCK_UN)
        lock.close()
    return b


DRIVER = os.environ.get("VERIF_DRIVER") or os.path.join(BUILD, "extract", "driver")   # VERIF_DRIVER: harness/modelmut.py runs a mutated model


def drive(lines, timeout=3000):
    """Run the extracted model on a batch of protocol lines; one output line per input line."""
    if not lines:
        return []
    inp = "\n".join(lines) + "\n"
    p = subprocess.run(["bash", "-c", f"ulimit -s unlimited 2>/dev/null; exec {DRIVER}"], input=inp, capture_output=True, text=True, timeout=timeout)
    out = p.stdout.split("\n")
    if out and out[-1] == "":
        out.pop()
    if len(out) != len(lines):
        raise RuntimeError(f"driver returned {len(out)} lines for {len(lines)} commands; stderr: {p.stderr[-500:]}")
    if len(XLOG) < 40000:
        XLOG.extend((l, o) for l, o in zip(lines, out) if l[:5] in ("PARSE", "PRINT", "EVAL ", "APPLY", "PLAN "))
    return out


# (protocol line, driver answer) pairs of the commands that harness/xcheck.py can re-evaluate inside Coq
XLOG = []


# ------------------------------------------------------------------ proof obligations
GATE_RE = re.compile(r"\b(Admitted|admit|Axiom|Axioms|Parameter|Parameters|Conjecture|Conjectures|Admit Obligations)\b|Unset\s+Guard|bypass_check|type-in-type|impredicative-set|Unset\s+Positivity|Unset\s+Universe")


def _strip_comments(src):
    out, depth, i = [], 0, 0
    while i < len(src):
        if src.startswith("(*", i):
            depth += 1
            i += 2
        elif src.startswith("*)", i) and depth:
            depth -= 1
            i += 2
        else:
            if depth == 0:
                out.append(src[i])
            i += 1
    return "".join(out)


def grep_gate():
    """No Admitted/admit/Axiom/Parameter/Conjecture, no section-less Variable/Hypothesis, no disabled checks."""
    bad = []
    for sub in ("theories", "proofs", "properties", "extraction"):
        d = os.path.join(COQ, sub)
        for f in sorted(os.listdir(d)):
            if not f.endswith(".v") or f == "Params.v":
                continue
            src = _strip_comments(open(os.path.join(d, f)).read())
            for m in GATE_RE.finditer(src):
                bad.append(f"{sub}/{f}: {m.group(0)}")
            depth = 0
            for line in src.split("\n"):
                s = line.strip()
                if re.match(r"Section\b", s):
                    depth += 1
                elif re.match(r"End\b", s) and depth:
                    depth -= 1
                elif depth == 0 and re.match(r"(Variable|Variables|Hypothesis|Hypotheses|Context)\b", s):
                    bad.append(f"{sub}/{f}: section-less {s[:40]}")
    return bad


def theorems_of(prop):
    src = _strip_comments(open(os.path.join(COQ, "properties", f"{prop}.v")).read())
    return re.findall(r"^\s*Theorem\s+([A-Za-z0-9_']+)", src, re.M)


def run_coqchk(prop):
    """thorough tier: the independent checker re-checks the compiled property file and everything it depends on, and lists the
    axioms of the whole context. Returns (problems, summary)."""
    rc, out, err = run(["timeout", "1500", "coqchk", "-silent", "-o", "-Q", "theories", "Mathy", "-Q", "proofs", "MathyProofs", "-Q", "properties", "MathyProps",
                        f"MathyProps.{prop}"], cwd=COQ, timeout=1600)
    text = out + err
    if rc != 0 or "CONTEXT SUMMARY" not in text:
        return [f"coqchk failed (rc={rc}): " + text[-300:]], {}
    summ = text[text.index("CONTEXT SUMMARY"):]
    sections = {}
    for m in re.finditer(r"\* ([^:\n]+):\s*(.*?)(?=\n\* |\Z)", summ, re.S):
        sections[m.group(1).strip()] = [x.strip() for x in m.group(2).strip().splitlines() if x.strip()]
    problems = []
    axioms = [a for a in sections.get("Axioms", []) if a != "<none>"]
    short = [a.replace("Coq.Reals.", "").replace("Coq.Logic.", "") for a in axioms]
    notok = [a for a in short if a not in ALLOWED_AXIOMS]
    if notok:
        problems.append(f"coqchk: context depends on non-allowed axioms {notok}")
    for k in ("Constants/Inductives relying on type-in-type", "Constants/Inductives relying on unsafe (co)fixpoints", "Inductives whose positivity is assumed"):
        if sections.get(k, ["<none>"]) != ["<none>"]:
            problems.append(f"coqchk: {k}: {sections[k][:3]}")
    return problems, dict(axioms=axioms, theory=sections.get("Theory", []))


def check_obligations(prop, build):
    """Returns dict(obligations, discharged, problems[list of str], assumptions{thm:[axioms]})."""
    res = dict(obligations=0, discharged=0, problems=[], assumptions={}, theorems=[])
    pv = os.path.join(COQ, "properties", f"{prop}.v")
    if not os.path.exists(pv):
        res["problems"].append(f"properties/{prop}.v missing")
        return res
    thms = theorems_of(prop)
    res["theorems"] = thms
    res["obligations"] = len(thms)
    if build.translate_error:
        res["problems"].append("translator failed: " + build.translate_error.strip()[-300:])
    gate = grep_gate()
    if gate:
        res["problems"].append("grep gate: " + "; ".join(gate[:5]))
    if not build.prop_ok(prop):
        # which file failed?
        errs = re.findall(r'File "\./([^"]+)", line (\d+)[^\n]*\n(?:[^\n]*\n)?Error:?\s*([^\n]*)', build.make_log)
        res["problems"].append(f"properties/{prop}.vo does not build: " + "; ".join(f"{f}:{l} {m[:80]}" for f, l, m in errs[:4]))
        return res
    # Print Assumptions for every theorem (fresh, from the compiled library)
    tmp = os.path.join(BUILD, f"assum_{prop}.v")
    with open(tmp, "w") as f:
        f.write(f"From MathyProps Require Import {prop}.\n")
        for t in thms:
            f.write(f'Print Assumptions {t}.\n')
    rc, out, err = run(["timeout", "600", "coqc", "-Q", "theories", "Mathy", "-Q", "proofs", "MathyProofs", "-Q", "properties", "MathyProps", tmp], cwd=COQ, timeout=700)
    for ext in (".vo", ".glob", ".vok", ".vos"):
        try:
            os.remove(tmp[:-2] + ext)
        except OSError:
            pass
    if rc != 0:
        res["problems"].append("Print Assumptions run failed: " + (out + err)[-300:])
        return res
    # split the output per theorem: blocks start with "Closed under" or "Axioms:"
    blocks = re.split(r"(?=^Closed under the global context|^Axioms:)", out, flags=re.M)
    blocks = [b for b in blocks if b.strip()]
    if len(blocks) != len(thms):
        res["problems"].append(f"Print Assumptions printed {len(blocks)} blocks for {len(thms)} theorems")
        return res
    for t, blk in zip(thms, blocks):
        if blk.startswith("Closed under"):
            res["assumptions"][t] = []
            res["discharged"] += 1
        else:
            ax = [a for a in re.findall(r"^([A-Za-z_][A-Za-z0-9_.']*)\s*:", blk, re.M) if a != "Axioms"]
            res["assumptions"][t] = ax
            notok = [a for a in ax if a not in ALLOWED_AXIOMS]
            if notok:
                res["problems"].append(f"{t} depends on non-allowed axioms {notok}")
            else:
                res["discharged"] += 1
    return res


# ------------------------------------------------------------------ known findings
def load_known(prop):
    p = os.path.join(VERIF, "known_findings.json")
    if not os.path.exists(p):
        return []
    data = json.load(open(p))
    return [e for e in data.get("findings", []) if e.get("property") == prop and e.get("status") == "known"]


def match_known(finding, known):
    """finding: dict with 'class' and optional structural keys; entry['matcher'] is a dict that must be
    contained in the finding (lists = any-of)."""
    for e in known:
        ok = True
        for k, v in e.get("matcher", {}).items():
            fv = finding.get(k)
            if isinstance(v, list):
                if fv not in v:
                    ok = False
            elif fv != v:
                ok = False
        if ok:
            return e
    return None


# ------------------------------------------------------------------ results
class Result:
    def __init__(self, prop, tier, seed):
        self.prop, self.tier, self.seed = prop, tier, seed
        self.evaluations = 0
        self.nontrivial = set()
        self.rule = ""
        self.samples = []
        self.disagreements = []   # correspondence: dict(suite, input, impl, model)
        self.failures = []        # property oracle on the implementation: dict(class, input, detail, ...)
        self.dist = {}
        self.uncovered = []
        self.notes = []
        self.suites = []

    def count(self, key, n=1):
        self.dist[key] = self.dist.get(key, 0) + n

    def sample(self, s, cap=6):
        if len(self.samples) < cap:
            self.samples.append(s)


def write_replay(prop, n, payload):
    d = os.path.join(BUILD, "replay")
    os.makedirs(d, exist_ok=True)
    p = os.path.join(d, f"{prop}-{n}.json")
    with open(p, "w") as f:
        json.dump(payload, f, indent=1, default=str)
    return p


def write_evidence(prop, tier, seed, res, obl, wall, violations, known_printed, extra=None):
    cov = dict(
        obligations=max(1, obl["obligations"]),
        discharged=obl["discharged"],
        checker_cmd="cd /verif/coq && coq_makefile -f _CoqProject -o Makefile && make -j16 (full .vo build) ; coqc Print Assumptions per theorem ; thorough tier: coqchk -o",
        trusted_base=TRUSTED_BASE,
        theorems=obl.get("theorems", []),
        assumptions=obl.get("assumptions", {}),
        proof_problems=obl.get("problems", []),
        evaluations=res.evaluations,
        distinct_nontrivial=len(res.nontrivial),
        rule=res.rule,
        samples=res.samples[:8] if res.samples else ["(no sample)"],
        correspondence_disagreements=len(res.disagreements),
        oracle_failures=len(res.failures),
        input_distribution=res.dist,
        uncovered=res.uncovered,
        suites=res.suites,
        known_findings_printed=known_printed,
        notes=res.notes,
    )
    if cov["discharged"] < 1:
        # nothing discharged (broken build): the proof keys would be invalid; report under other names
        cov["obligations_total"] = cov.pop("obligations")
        cov["obligations_discharged"] = cov.pop("discharged")
    if extra:
        cov.update(extra)
    ev = dict(
        property_id=prop,
        tier=tier,
        seed=seed,
        level="proof",
        coverage=cov,
        assumptions=[
            "model = hand-written Gallina following the Python source; tie = generated Params.v + differential correspondence on this run's inputs",
            "floating-point rounding idealised as exact rational arithmetic in the model (compared with tolerance)",
        ],
        wall_s=round(wall, 2),
        violations=violations,
    )
    os.makedirs(os.path.join(VERIF, "evidence"), exist_ok=True)
    p = os.path.join(VERIF, "evidence", f"{prop}.json")
    with open(p + ".tmp", "w") as f:
        json.dump(ev, f, indent=1, default=str)
    os.replace(p + ".tmp", p)
    return p
