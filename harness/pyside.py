"""Python side of the correspondence: S-expression <-> implementation objects (with a heap audit),
exact rational reference evaluation (the independent value oracle), numeric comparison rules,
tree generators."""
import math
import warnings
from fractions import Fraction as F

warnings.filterwarnings("ignore")


# ----------------------------------------------------------------------------- S-expressions
# text form shared with extraction/main.ml:
#   (c i5) (c f1/2) (c nan) (v 120) (neg e) (fact e) (sgn e) (add a b) (sub..) (mul..) (div..) (pow..) (eq..)
# tuple form:  ('c', ('i', 5)) | ('c', ('f', Fraction)) | ('c', ('nan',)) | ('v', 120) | ('neg', e) | ('add', a, b)
UN = ("neg", "fact", "sgn", "abs")   # abs: AbsExpression - constructor-built only (`abs` is not a function name of the tokenizer)
BIN = ("eq", "add", "sub", "mul", "div", "pow")


def num_tuple(v):
    import numpy as np

    if isinstance(v, bool):
        return ("i", int(v))
    if isinstance(v, (int, np.integer)):
        return ("i", int(v))
    v = float(v)
    if v != v or v in (float("inf"), float("-inf")):
        return ("nan",)
    return ("f", F(v))


def num_text(t):
    if t[0] == "i":
        return f"i{t[1]}"
    if t[0] == "nan":
        return "nan"
    return f"f{t[1].numerator}/{t[1].denominator}"


def sx_text(t):
    if t[0] == "c":
        return f"(c {num_text(t[1])})"
    if t[0] == "v":
        return f"(v {t[1]})"
    return "(" + t[0] + " " + " ".join(sx_text(a) for a in t[1:]) + ")"


def _toks(s):
    return s.replace("(", " ( ").replace(")", " ) ").split()


def _rd(ts, i):
    assert ts[i] == "(", ts[i:i + 5]
    op = ts[i + 1]
    i += 2
    if op == "c":
        x = ts[i]
        assert ts[i + 1] == ")"
        if x == "nan":
            return ("c", ("nan",)), i + 2
        if x[0] == "i":
            return ("c", ("i", int(x[1:]))), i + 2
        a, b = x[1:].split("/")
        return ("c", ("f", F(int(a), int(b)))), i + 2
    if op == "v":
        return ("v", int(ts[i])), i + 2
    args = []
    while ts[i] != ")":
        a, i = _rd(ts, i)
        args.append(a)
    return (op, *args), i + 1


def sx_parse(s):
    t, _ = _rd(_toks(s), 0)
    return t


def num_close(a, b, tol=1e-9):
    """a: implementation number tuple, b: model number tuple. Kind must match; floats within tolerance."""
    if a[0] != b[0]:
        return False
    if a[0] == "i":
        return a[1] == b[1]
    if a[0] == "nan":
        return True
    return abs(a[1] - b[1]) <= F(tol) * max(1, abs(b[1]))


def sx_same(a, b):
    if a[0] != b[0] or len(a) != len(b):
        return False
    if a[0] == "c":
        return num_close(a[1], b[1])
    if a[0] == "v":
        return a[1] == b[1]
    return all(sx_same(x, y) for x, y in zip(a[1:], b[1:]))


def normalize(t):
    """round every float constant to the double the implementation will hold (1/3 -> Fraction(float(1/3)))."""
    if t[0] == "c":
        n = t[1]
        if n[0] == "f":
            return ("c", ("f", F(n[1].numerator / n[1].denominator)))
        return t
    if t[0] == "v":
        return t
    return (t[0],) + tuple(normalize(a) for a in t[1:])


def sx_size(t):
    return 1 if t[0] in ("c", "v") else 1 + sum(sx_size(a) for a in t[1:])


def sx_depth(t):
    return 0 if t[0] in ("c", "v") else 1 + max(sx_depth(a) for a in t[1:])


def sx_vars(t):
    if t[0] == "v":
        return {t[1]}
    if t[0] == "c":
        return set()
    out = set()
    for a in t[1:]:
        out |= sx_vars(a)
    return out


def sx_inorder(t, pre=""):
    """paths in the implementation's in-order (unary operand on the right)."""
    if t[0] in ("c", "v"):
        return [pre]
    if t[0] in UN:
        return [pre] + sx_inorder(t[1], pre + "R")
    return sx_inorder(t[1], pre + "L") + [pre] + sx_inorder(t[2], pre + "R")


def sx_sub(t, path):
    for d in path:
        if t[0] in UN:
            assert d == "R"
            t = t[1]
        else:
            t = t[1] if d == "L" else t[2]
    return t


# ----------------------------------------------------------------------------- implementation objects
def classes():
    from mathy_core import expressions as E

    return {
        "eq": E.EqualExpression, "add": E.AddExpression, "sub": E.SubtractExpression, "mul": E.MultiplyExpression,
        "div": E.DivideExpression, "pow": E.PowerExpression, "neg": E.NegateExpression, "fact": E.FactorialExpression,
        "sgn": E.SgnExpression, "abs": E.AbsExpression,
    }


def build(t):
    """tuple form -> implementation tree through the public constructors."""
    from mathy_core import expressions as E

    if t[0] == "c":
        n = t[1]
        if n[0] == "i":
            return E.ConstantExpression(n[1])
        if n[0] == "nan":
            return E.ConstantExpression(float("nan"))
        return E.ConstantExpression(n[1].numerator / n[1].denominator)
    if t[0] == "v":
        return E.VariableExpression(chr(t[1]))
    C = classes()
    if t[0] in UN:
        return C[t[0]](build(t[1]))
    return C[t[0]](build(t[1]), build(t[2]))


class AuditError(Exception):
    pass


def ser(root, audit=True):
    """implementation tree -> tuple form, auditing the heap: every child's parent is the node, no
    object met twice, arities fit the class, the root has no parent, unary operand on the right."""
    from mathy_core import expressions as E

    C = classes()
    kind = {v: k for k, v in C.items()}
    seen = set()
    if audit and root.parent is not None:
        raise AuditError("root has a parent")

    def go(n):
        if id(n) in seen:
            raise AuditError(f"node object {type(n).__name__} occurs twice")
        seen.add(id(n))
        for ch in (n.left, n.right):
            if ch is not None and audit and ch.parent is not n:
                raise AuditError(f"child {type(ch).__name__} of {type(n).__name__} has parent {type(ch.parent).__name__ if ch.parent is not None else None}")
        if isinstance(n, E.ConstantExpression):
            if n.left is not None or n.right is not None:
                raise AuditError("constant with children")
            if n.value is None:
                raise AuditError("constant without value")
            return ("c", num_tuple(n.value))
        if isinstance(n, E.VariableExpression):
            if n.left is not None or n.right is not None:
                raise AuditError("variable with children")
            if not isinstance(n.identifier, str) or len(n.identifier) != 1:
                raise AuditError(f"variable identifier {n.identifier!r}")
            return ("v", ord(n.identifier))
        k = kind.get(type(n))
        if k is None:
            raise AuditError(f"unknown node class {type(n).__name__}")
        if k in UN:
            if n.left is not None or n.right is None:
                raise AuditError(f"{type(n).__name__} operand not on the right side")
            if n.child_on_left:
                raise AuditError("child_on_left set with the operand on the right")
            return (k, go(n.right))
        if n.left is None or n.right is None:
            raise AuditError(f"{type(n).__name__} lacks an operand")
        return (k, go(n.left), go(n.right))

    return go(root)


def node_at(root, path):
    n = root
    for d in path:
        n = n.left if d == "L" else n.right
    return n


def path_of(n):
    p = []
    while n.parent is not None:
        p.append("L" if n.parent.left is n else "R")
        n = n.parent
    return "".join(reversed(p))


def inorder_nodes(n, acc=None):
    acc = [] if acc is None else acc
    if n.left is not None:
        inorder_nodes(n.left, acc)
    acc.append(n)
    if n.right is not None:
        inorder_nodes(n.right, acc)
    return acc


def preorder_objs(root):
    """(object, path) of every node below root in pre-order."""
    out = []

    def go(n, pth):
        out.append((n, pth))
        if n.left is not None:
            go(n.left, pth + "L")
        if n.right is not None:
            go(n.right, pth + "R")

    go(root, "")
    return out


def snapshot(root):
    """identity + pointer + payload snapshot of a heap (for purity / immutability checks)."""
    out = []

    def go(n):
        out.append((id(n), type(n).__name__, id(n.left) if n.left is not None else None, id(n.right) if n.right is not None else None,
                    id(n.parent) if n.parent is not None else None, repr(getattr(n, "value", None)), getattr(n, "identifier", None),
                    n.id, getattr(n, "child_on_left", None)))
        if n.left is not None:
            go(n.left)
        if n.right is not None:
            go(n.right)

    go(root)
    return out


# ----------------------------------------------------------------------------- exact reference evaluation
class Undefined(Exception):
    pass


class Irrational(Exception):
    pass


def _fnum(n):
    if n[0] == "nan":
        raise Undefined()
    return F(n[1])


# ILL[0]: trees with float constants are being compared up to rounding: points where a rounding error decides a discontinuous
# operation (sign at 0, integrality for a factorial, a divisor that is 0 up to rounding) are skipped
ILL = [False]


def eval_exact(t, env, stats=None):
    """Exact value over Q of the mathematical expression (den of DESIGN 3.5 restricted to rational
    results). env: code point -> Fraction. Raises Undefined (division by zero, 0^negative, negative base
    with non-integer exponent, factorial off the naturals, an equation whose sides differ) or Irrational."""
    k = t[0]
    if k == "c":
        v = _fnum(t[1])
    elif k == "v":
        if t[1] not in env or env[t[1]] is None:
            raise Undefined()
        v = env[t[1]]
    elif k == "neg":
        v = -eval_exact(t[1], env, stats)
    elif k == "abs":
        v = abs(eval_exact(t[1], env, stats))
    elif k == "sgn":
        c = eval_exact(t[1], env, stats)
        if ILL[0] and abs(c) <= F(1, 10 ** 9) * max(1, stats[0] if stats else 0):
            raise Irrational()   # a float rounding error decides the sign here: nothing to compare
        v = F((c > 0) - (c < 0))
    elif k == "fact":
        c = eval_exact(t[1], env, stats)
        if ILL[0] and c.denominator != 1 and abs(c - round(c)) <= F(1, 10 ** 9) * max(1, abs(c)):
            raise Irrational()   # a float rounding error decides whether this is an integer
        if c.denominator != 1 or c < 0 or c > 200:
            raise Undefined()
        v = F(math.factorial(int(c)))
    else:
        a = eval_exact(t[1], env, stats)
        b = eval_exact(t[2], env, stats)
        if k == "add":
            v = a + b
        elif k == "sub":
            v = a - b
        elif k == "mul":
            v = a * b
        elif k == "div":
            if b == 0:
                raise Undefined()
            if ILL[0] and abs(b) <= F(1, 10 ** 12) * max(1, stats[0] if stats else 0):
                raise Irrational()   # a divisor that is zero up to float rounding
            v = a / b
        elif k == "eq":
            if a != b:
                raise Undefined()
            v = a
        elif k == "pow":
            if b.denominator == 1:
                if a == 0 and b < 0:
                    raise Undefined()
                if abs(b) > 64 or (abs(b) > 8 and (abs(a.numerator) > 10 ** 6 or a.denominator > 10 ** 6)):
                    raise Irrational()  # too large to be worth computing exactly
                v = a ** int(b)
            else:
                if ILL[0] and a < 0 and abs(b - round(b)) <= F(1, 10 ** 9) * max(1, abs(b)):
                    raise Irrational()   # a float rounding error decides whether the exponent of a negative base is an integer
                if a < 0:
                    raise Undefined()
                if a == 0:
                    if b > 0:
                        v = F(0)
                    else:
                        raise Undefined()
                else:
                    raise Irrational()
        else:
            raise ValueError(k)
    if stats is not None:
        stats[0] = max(stats[0], abs(v))
    return v


ASSIGN_VALUES = [F(0), F(1), F(-1), F(2), F(-2), F(1, 2), F(-1, 2), F(3), F(5, 3), F(7), F(-3), F(3, 2), F(10), F(1, 4)]


def assignments(rnd, variables, n):
    vs = sorted(variables)
    out = []
    if vs:
        # a few structured ones first: all zero, all one, all minus one
        for c in (F(0), F(1), F(-1), F(2)):
            out.append({v: c for v in vs})
    else:
        return [{}]
    while len(out) < n:
        out.append({v: rnd.choice(ASSIGN_VALUES) for v in vs})
    return out[:n]


def values_agree(a, b, scale):
    return abs(a - b) <= F(1, 10 ** 9) * max(1, scale)


def compare_values(t1, t2, envs, mode="refines"):
    """Independent value oracle. mode 'refines': wherever t1 is defined, t2 must be defined with the same value
    (the literal property 'equal wherever both are defined' is the weaker 'agree').
    Returns None or (env, v1, v2)."""
    defined = 0
    for env in envs:
        st = [F(0)]
        try:
            a = eval_exact(t1, env, st)
        except Undefined:
            a = None
        except Irrational:
            continue
        try:
            b = eval_exact(t2, env, st)
        except Undefined:
            b = None
        except Irrational:
            continue
        if a is None:
            continue
        defined += 1
        if b is None:
            if mode == "refines":
                return (env, a, b), defined
            continue
        if not values_agree(a, b, st[0]):
            return (env, a, b), defined
    return None, defined


def equation_holds(t, env, exact=False):
    """holds for an equation tree (eq l r) whose sides are both defined: l = r exactly (exact=True), or up to rounding relative to
    the largest magnitude met while evaluating the two sides (used only after the exact truth values of two equations differ)."""
    st = [F(0)]
    a = eval_exact(t[1], env, st)
    b = eval_exact(t[2], env, st)
    if exact:
        return a == b
    return abs(a - b) <= F(1, 10 ** 9) * max(abs(a), abs(b), st[0])


# ----------------------------------------------------------------------------- generators
def C(i):
    return ("c", ("i", i))


def Cf(n, d=1):
    return ("c", ("f", F(n, d)))


def V(ch):
    return ("v", ord(ch))


CONSTS = [C(0), C(1), C(2), C(3), C(4), C(6), C(12), C(-1), C(-3), C(7), C(5), Cf(1, 2), Cf(5, 2), Cf(-1, 2), Cf(3), Cf(3, 4), Cf(12), C(10)]
EXPS = [C(0), C(1), C(2), C(3), C(-1), Cf(1, 2), C(2), C(3), Cf(2)]


def rterm(rnd, vars_="xyz"):
    r = rnd.random()
    v = V(rnd.choice(vars_))
    c = rnd.choice(CONSTS)
    e = rnd.choice(EXPS)
    if r < 0.15:
        return c
    if r < 0.3:
        return v
    if r < 0.5:
        return ("mul", c, v)
    if r < 0.65:
        return ("pow", v, e)
    if r < 0.85:
        return ("mul", c, ("pow", v, e))
    if r < 0.92:
        return ("neg", v)
    return ("neg", ("pow", v, e))


def rtree(rnd, d, ops=None, vars_="xyz"):
    if d == 0 or rnd.random() < 0.2:
        return rterm(rnd, vars_)
    k = rnd.choice(ops or ["add", "add", "add", "sub", "mul", "mul", "mul", "div", "pow", "neg"])
    if k in UN:
        return (k, rtree(rnd, d - 1, ops, vars_))
    return (k, rtree(rnd, d - 1, ops, vars_), rtree(rnd, d - 1, ops, vars_))


def rtree_any(rnd, d):
    """constructor-level trees including shapes the parser never emits (Negate of Negate, Power of Negate/Power/compact product, sgn, factorial of literals)."""
    if d == 0 or rnd.random() < 0.22:
        t = rterm(rnd)
        if rnd.random() < 0.08:
            t = ("fact", rnd.choice([C(3), C(0), C(5), C(1)]))
        return t
    k = rnd.choice(["add", "sub", "mul", "div", "pow", "neg", "sgn", "mul", "pow", "neg", "add"])
    if k in UN:
        return (k, rtree_any(rnd, d - 1))
    return (k, rtree_any(rnd, d - 1), rtree_any(rnd, d - 1))


def term(rnd, v=None, allow_neg=True):
    """a natural-order term  c * v^e  with optional parts."""
    v = V(v or rnd.choice("xyz"))
    c = rnd.choice(CONSTS + [C(8), C(9), C(14), C(-2), C(-6), Cf(3, 2), Cf(6), C(100), C(2 ** 40)])
    e = rnd.choice(EXPS + [C(4), C(5)])
    r = rnd.random()
    if r < 0.12:
        return c
    if r < 0.27:
        return v
    if r < 0.5:
        return ("mul", c, v)
    if r < 0.65:
        return ("pow", v, e)
    if r < 0.9:
        return ("mul", c, ("pow", v, e))
    return ("neg", v) if rnd.random() < 0.5 else ("neg", ("pow", v, e))


def like_pair(rnd):
    """templates that hit the term-based rules: two terms (mostly over one variable) joined by + - * in the
    simple and chained arrangements of factor-out / variable-multiply / constant arithmetic."""
    v = rnd.choice("xyz")
    w = v if rnd.random() < 0.8 else rnd.choice("xyz")
    a, b = term(rnd, v), term(rnd, w)
    if rnd.random() < 0.3:
        # same exponent on both
        e = rnd.choice(EXPS)
        c1, c2 = rnd.choice(CONSTS), rnd.choice(CONSTS)
        a, b = ("mul", c1, ("pow", V(v), e)), ("mul", c2, ("pow", V(v), e))
    op = rnd.choice(["add", "add", "mul", "sub"])
    k = rnd.random()
    o1, o2 = rtree(rnd, rnd.randint(0, 1)), rtree(rnd, rnd.randint(0, 1))
    if k < 0.4:
        return (op, a, b)
    if k < 0.55:
        return (op, (op, o1, a), b)
    if k < 0.7:
        return (op, a, (op, b, o1))
    if k < 0.8:
        return (op, (op, o1, a), (op, b, o2))
    if k < 0.9:
        return (op, a, (op, (op, b, o1), o2))
    return (op, (op, o1, (op, o2, a)), b)


def const_pair(rnd):
    a, b = rnd.choice(CONSTS + [C(2 ** 40), C(20), C(63), C(-2)]), rnd.choice(CONSTS + [C(64), C(70), C(-2), C(-3), Cf(1, 3)])
    op = rnd.choice(["add", "sub", "mul", "div", "pow", "pow"])
    t = (op, a, b)
    k = rnd.random()
    if k < 0.2:
        return ("neg", t)
    if k < 0.45:
        op2 = op if rnd.random() < 0.7 else rnd.choice(["add", "sub", "mul", "div", "pow"])
        return (op, a, (op2, b, rtree(rnd, 1)))
    if k < 0.55:
        return (op, a, (op, (op, b, rtree(rnd, 1)), rtree(rnd, 1)))
    return t


def unary_stack(rnd):
    """templates with one to three stacked unary operators at the positions the rules inspect: a negated (doubly, triply negated)
    denominator, subtrahend, factor, addend, exponent base, or folded constant pair (seed C01-D hid behind x / -(-y))."""
    def negs(t):
        for _ in range(rnd.choice([1, 2, 2, 3])):
            t = (rnd.choice(["neg", "neg", "neg", "sgn", "abs"]), t)
        return t
    a, b = rtree(rnd, rnd.randint(0, 1)), rtree(rnd, rnd.randint(0, 1))
    c1, c2 = rnd.choice(CONSTS), rnd.choice(CONSTS)
    k = rnd.randrange(9)
    if k == 0:
        return ("div", a, negs(b))
    if k == 1:
        return ("sub", a, negs(rnd.choice([b, V(rnd.choice("xyz")), c1])))
    if k == 2:
        return negs((rnd.choice(["add", "sub", "mul", "div"]), c1, c2))
    if k == 3:
        return ("mul", negs(a), b) if rnd.random() < 0.5 else ("mul", a, negs(b))
    if k == 4:
        return ("add", a, negs(rnd.choice([b, c1, ("mul", c1, V(rnd.choice("xyz")))])))
    if k == 5:
        return ("pow", negs(a), c2) if rnd.random() < 0.5 else ("pow", a, negs(c2))
    if k == 6:
        v = V(rnd.choice("xyz"))
        return (rnd.choice(["add", "mul"]), negs(("mul", c1, v)), ("mul", c2, v))
    if k == 7:
        return ("div", negs(a), negs(b))
    return negs(like_pair(rnd))


def rare_forms(rnd):
    """direct instances of the classifier arrangements that random trees seldom hit (restate-subtraction's negative constant / negated
    variable / plus-negative forms, the chained forms of constant arithmetic, factor-out and variable multiply)"""
    a, o1, o2 = rtree(rnd, rnd.randint(0, 1)), rtree(rnd, rnd.randint(0, 1)), rtree(rnd, rnd.randint(0, 1))
    v, w = V(rnd.choice("xyz")), V(rnd.choice("xyz"))
    neg = rnd.choice([C(-1), C(-2), C(-7), Cf(-3, 2), C(-12)])
    c1, c2 = rnd.choice(CONSTS), rnd.choice(CONSTS)
    e = rnd.choice(EXPS)
    k = rnd.randrange(14)
    if k == 0:
        return ("sub", a, neg)                                  # subtract-negative-constant
    if k == 1:
        return ("sub", a, ("neg", v))                           # subtract-negative-variable
    if k == 2:
        return ("add", a, neg)                                  # add_neg_const
    if k == 3:
        return ("add", a, ("mul", neg, v))                      # add_neg_const_var
    if k == 4:
        return ("add", a, ("mul", neg, ("pow", v, e)))          # add_neg_const_var_exp
    if k == 5:
        return ("mul", ("mul", c1, v), c2)                      # simple_var_multiply
    if k == 6:
        op = rnd.choice(["add", "mul"])
        return (op, c1, (op, (op, c2, o1), o2))                 # chained_right_deep
    if k == 7:
        return ("mul", ("mul", c1, o1), ("mul", ("mul", c2, o2), a))   # chained_right_left_left
    if k == 8:
        return ("mul", ("mul", o1, ("mul", c1, o2)), ("mul", c2, a))   # chained_left_left_right
    t1, t2 = ("mul", c1, ("pow", v, e)), ("mul", c2, ("pow", v, e))
    if k == 9:
        return ("add", ("add", o1, ("add", o2, t1)), t2)        # factor-out chained_left_right
    if k == 10:
        return ("add", t1, ("add", ("add", t2, o1), o2))        # factor-out chained_right_left
    if k == 11:
        return ("add", ("add", o1, t1), ("add", t2, o2))        # factor-out chained_both
    if k == 12:
        return ("mul", ("mul", o1, t1), t2)                     # variable multiply chained_left_right
    return ("mul", t1, ("mul", t2, o1))                         # variable multiply chained


def perturb(rnd, t, n=1):
    """near-miss generator: change the operator kind of a binary node, swap a unary kind, or replace a leaf by another
    leaf class (constant <-> variable, zero / negative / fractional constant) at n random positions."""
    for _ in range(n):
        paths = sx_inorder(t)
        p = rnd.choice(paths)

        def go(node, path):
            if not path:
                k = node[0]
                if k in BIN:
                    return (rnd.choice([x for x in ("add", "sub", "mul", "div", "pow") if x != k]), node[1], node[2])
                if k in UN:
                    return (rnd.choice(["neg", "sgn"]), node[1]) if k != "fact" else node
                if k == "c":
                    return rnd.choice([V(rnd.choice("xyz")), C(0), C(-2), Cf(1, 2), C(1), Cf(-3, 2)])
                return rnd.choice([C(rnd.choice([0, 1, 2, -1, 5])), V(rnd.choice("xyz"))])
            if node[0] in UN:
                return (node[0], go(node[1], path[1:]))
            if path[0] == "L":
                return (node[0], go(node[1], path[1:]), node[2])
            return (node[0], node[1], go(node[2], path[1:]))
        t = go(t, p)
    return t


def with_equation(rnd, gen, d):
    t = gen(rnd, d)
    if rnd.random() < 0.3:
        t = ("eq", t, gen(rnd, max(0, d - 1)))
    return t


def embed(rnd, t, depth=None):
    """random surrounding context: under every parent kind and side, inside each side of an equation, at the root."""
    depth = rnd.randint(0, 3) if depth is None else depth
    for _ in range(depth):
        k = rnd.choice(["add", "add", "sub", "mul", "mul", "div", "pow", "neg", "sgn", "abs"])
        if k in UN:
            t = (k, t)
        elif rnd.random() < 0.5:
            t = (k, t, rtree(rnd, rnd.randint(0, 2)))
        else:
            t = (k, rtree(rnd, rnd.randint(0, 2)), t)
    if rnd.random() < 0.3:
        o = rtree(rnd, rnd.randint(0, 2))
        t = ("eq", t, o) if rnd.random() < 0.5 else ("eq", o, t)
    return t


def rule_test_inputs():
    """every input/output string of rules/*.test.json (they reach every arrangement of every classifier)."""
    import glob
    import json
    import os

    from common import REPO

    out = set()
    for f in sorted(glob.glob(os.path.join(REPO, "mathy_core", "rules", "*.test.json"))):
        d = json.load(open(f))
        for k in ("valid", "invalid"):
            for e in d.get(k, []):
                out.add(e["input"])
                if "output" in e:
                    out.add(e["output"])
    return sorted(out)
