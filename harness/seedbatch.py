#!/venv/bin/python
"""Developer tool: confirm the seeded changes delivered for a property and run checks against them; store under /verif/seeded/."""
import json, os, shutil, subprocess, sys
sys.path.insert(0, os.path.dirname(os.path.abspath(__file__)))
import seedtest

prop = sys.argv[1]
checks = sys.argv[2:] or [prop]
src = f"/tmp/wt/{prop}/out"
notes = open(os.path.join(src, "notes.md")).read() if os.path.exists(os.path.join(src, "notes.md")) else ""
LABELS = os.environ.get("SEED_LABELS", "AB")  # where mutA/mutB are stored (e.g. CD for a second round)
PROPS = os.environ.get("SEED_PROPS", "").split(",") if os.environ.get("SEED_PROPS") else None  # property of mutA, of mutB (mixed batches)
SRC = prop
for k, (m0, m) in enumerate(zip("AB", LABELS)):
    if PROPS:
        prop = PROPS[k]
        checks = [prop]
    patch, demo = f"{src}/mut{m0}.diff", f"{src}/demo{m0}.py"
    if not os.path.exists(patch):
        continue
    c = seedtest.confirm(prop, patch, demo)
    print(prop, m, "confirmed" if c.get("confirmed") else "NOT CONFIRMED", c.get("pytest_tail"), "demo clean/mut rc:", c.get("demo_clean_rc"), c.get("demo_mut_rc"))
    if not c.get("confirmed"):
        print("   ", json.dumps(c)[:600])
        continue
    d = seedtest.detect(patch, checks)
    for k, v in d.items():
        f = v.get("finding") or {}
        print(f"    check {k}: rc={v['rc']} {'; '.join(v['lines'])[:160]}")
        if isinstance(f, dict):
            print(f"        -> {f.get('kind')} {f.get('cls')} {str(f.get('input'))[:160]} | {str(f.get('detail'))[:160]} {f.get('broken') or ''}")
    dst = f"/verif/seeded/{prop}-{m}"
    os.makedirs(dst, exist_ok=True)
    shutil.copy(patch, f"{dst}/patch.diff")
    shutil.copy(demo, f"{dst}/demo.py")
    meta = dict(property=prop, source="independent sub-agent given only the property text and a scratch worktree",
                needs_to_manifest="see notes", notes=notes, confirmed=c, checks_run=d,
                detected_by=[k for k, v in d.items() if v["rc"] != 0],
                detected_with_failing_input=[k for k, v in d.items() if isinstance(v.get("finding"), dict) and v["finding"].get("kind") == "failing-input"])
    json.dump(meta, open(f"{dst}/meta.json", "w"), indent=1)
