#!/venv/bin/python
"""Translator: regenerates coq/theories/Params.v from /repo's current working tree.

Everything here is derived from the *running code* of /repo (PYTHONPATH forced to /repo):
  * the tokenizer's character classes and operator table are obtained by evaluating
    Tokenizer.is_number / is_alpha / identify_operators on EVERY code point 0..0x10FFFF
    (a complete enumeration of a finite domain, so the tables are exact, and a behaviour
    preserving rewrite of those functions leaves them unchanged);
  * the token-type codes, the parser's FIRST/precedence bit masks, the registered function
    names, the operator priorities and the problem generator's alphabets are read from the
    module objects.
The translator FAILS CLOSED: anything it cannot express in the table format (an operator that
emits more than one token, a padding token whose value differs from the character, ...) raises
and the check reports the broken tie.

Usage: gen_params.py <output file>
"""
import os
import sys
import warnings

warnings.filterwarnings("ignore")
REPO = os.environ.get("VERIF_REPO", "/repo")
sys.path.insert(0, REPO)


class TranslateError(Exception):
    pass


KINDS = [
    ("Constant", "TConst"),
    ("Variable", "TVar"),
    ("Plus", "TPlus"),
    ("Minus", "TMinus"),
    ("Multiply", "TMul"),
    ("Divide", "TDiv"),
    ("Exponent", "TExp"),
    ("Factorial", "TFact"),
    ("OpenParen", "TOpen"),
    ("CloseParen", "TClose"),
    ("Function", "TFunc"),
    ("Equal", "TEqual"),
    ("Pad", "TPad"),
    ("EOF", "TEOF"),
    ("Invalid", "TInvalid"),
]


def ranges(codes):
    out = []
    for c in codes:
        if out and out[-1][1] == c - 1:
            out[-1][1] = c
        else:
            out.append([c, c])
    return out


def nlist(xs):
    return "[" + "; ".join(str(x) for x in xs) + "]"


def main(out_path):
    import mathy_core

    if not os.path.realpath(mathy_core.__file__).startswith(os.path.realpath(REPO)):
        raise TranslateError(f"mathy_core imported from {mathy_core.__file__}, not {REPO}")
    from mathy_core import tokenizer as T
    from mathy_core import parser as P
    from mathy_core import expressions as E
    from mathy_core import problems as PR

    code_of = {}
    for py, coq in KINDS:
        v = getattr(T.TOKEN_TYPES, py)
        if not isinstance(v, int) or v < 0:
            raise TranslateError(f"TOKEN_TYPES.{py} = {v!r}")
        code_of[coq] = v
    kind_of_code = {}
    for coq, v in code_of.items():
        if v in kind_of_code:
            # two kinds with one code: keep both directions explicit; ParamsFacts will fail
            pass
        kind_of_code.setdefault(v, coq)

    tk = T.Tokenizer(exclude_padding=False)
    tk_ex = T.Tokenizer(exclude_padding=True)
    number_cp, alpha_cp, ops = [], [], []
    for cp in range(0x110000):
        ch = chr(cp)
        if tk.is_number(ch):
            number_cp.append(cp)
        if tk.is_alpha(ch):
            alpha_cp.append(cp)
        ctx = T.TokenContext(buffer=ch, chunk=ch)
        try:
            r = tk.identify_operators(ctx)
        except ValueError:
            # must be rejected in the other padding mode as well
            try:
                tk_ex.identify_operators(T.TokenContext(buffer=ch, chunk=ch))
            except ValueError:
                continue
            raise TranslateError(f"U+{cp:04X} rejected only when padding is kept")
        if not r or ctx.index != 1 or len(ctx.tokens) != 1:
            raise TranslateError(f"identify_operators on U+{cp:04X}: result {r!r}, index {ctx.index}, {len(ctx.tokens)} tokens")
        tok = ctx.tokens[0]
        if tok.type not in kind_of_code:
            raise TranslateError(f"operator U+{cp:04X} has unknown token type {tok.type}")
        kind = kind_of_code[tok.type]
        ctx2 = T.TokenContext(buffer=ch, chunk=ch)
        r2 = tk_ex.identify_operators(ctx2)
        if kind == "TPad":
            if ctx2.tokens or not r2 or ctx2.index != 1:
                raise TranslateError(f"padding U+{cp:04X} not dropped by exclude_padding")
        else:
            if len(ctx2.tokens) != 1 or ctx2.tokens[0].type != tok.type or ctx2.tokens[0].value != tok.value or ctx2.index != 1:
                raise TranslateError(f"operator U+{cp:04X} depends on the padding mode")
        ops.append((cp, kind, [ord(c) for c in tok.value]))
    if len(ops) > 200:
        raise TranslateError("operator table unexpectedly large")

    fnames = sorted(tk.functions.keys())
    for f in fnames:
        if tk.functions[f] is not E.SgnExpression:
            raise TranslateError(f"function {f!r} is not SgnExpression; the model knows sgn only")

    masks = {}
    for name in ["_FIRST_FUNCTION", "_FIRST_FACTOR", "_FIRST_FACTOR_PREFIX", "_FIRST_UNARY", "_FIRST_EXP",
                 "_FIRST_MULT", "_FIRST_ADD", "_IS_ADD", "_IS_MULT", "_IS_EXP", "_IS_EQUAL"]:
        ts = getattr(P, name)
        if not isinstance(ts.tokens, int) or ts.tokens < 0:
            raise TranslateError(f"{name}.tokens = {ts.tokens!r}")
        masks[name.lstrip("_")] = ts.tokens
    # TokenSet.contains must be the bit test
    for a in (0, 1, 5, 1 << 13, (1 << 15) - 1):
        for b in (1, 2, 4, 1 << 13, 1 << 14):
            if P.TokenSet(a).contains(b) != ((a & b) != 0):
                raise TranslateError("TokenSet.contains is not a bit test")

    ooo = {k: getattr(E, k) for k in ["OOO_FUNCTION", "OOO_PARENS", "OOO_EXPONENT", "OOO_MULTDIV", "OOO_ADDSUB", "OOO_INVALID"]}
    for k, v in ooo.items():
        if not isinstance(v, int):
            raise TranslateError(f"{k} = {v!r}")

    def chars(lst, what):
        out = []
        for s in lst:
            if not isinstance(s, str) or len(s) != 1:
                raise TranslateError(f"{what}: {s!r}")
            out.append(ord(s))
        return out

    L = []
    w = L.append
    w("(* GENERATED by harness/gen_params.py from the working tree of /repo. Do not edit. *)")
    w("From Coq Require Import List NArith ZArith.")
    w("From Mathy Require Import Tok.")
    w("Import ListNotations.")
    w("Open Scope N_scope.")
    w("")
    w("Definition tok_code (k:tkind) : N :=")
    w("  match k with")
    for _, coq in KINDS:
        w(f"  | {coq} => {code_of[coq]}")
    w("  end.")
    w("")
    w(f"Definition number_ranges : list (N*N) := [{'; '.join('(%d,%d)' % tuple(r) for r in ranges(number_cp))}].")
    w(f"Definition alpha_ranges : list (N*N) := [{'; '.join('(%d,%d)' % tuple(r) for r in ranges(alpha_cp))}].")
    w("(* code point -> (kind, emitted value); padding kinds are dropped when exclude_padding *)")
    w("Definition op_table : list (N * (tkind * list N)) :=")
    w("  [" + ";\n   ".join(f"({cp}, ({k}, {nlist(v)}))" for cp, k, v in ops) + "].")
    w(f"Definition function_names : list (list N) := [{'; '.join(nlist([ord(c) for c in f]) for f in fnames)}].")
    w("")
    for k, v in masks.items():
        w(f"Definition {k} : N := {v}.")
    w("")
    w("Open Scope Z_scope.")
    for k, v in ooo.items():
        w(f"Definition {k} : Z := {v}.")
    w(f"Definition prob_operators : list N := {nlist(chars(PR.operators, 'operators'))}%N.")
    w(f"Definition prob_common_variables : list N := {nlist(chars(PR.common_variables, 'common_variables'))}%N.")
    w(f"Definition prob_variables : list N := {nlist(chars(PR.variables, 'variables'))}%N.")
    if not isinstance(PR.max_const, int):
        raise TranslateError("max_const")
    w(f"Definition prob_max_const : Z := {PR.max_const}.")
    text = "\n".join(L) + "\n"
    tmp = out_path + ".tmp"
    with open(tmp, "w") as f:
        f.write(text)
    os.replace(tmp, out_path)


if __name__ == "__main__":
    try:
        main(sys.argv[1])
    except TranslateError as e:
        print(f"TRANSLATE-ERROR {e}")
        sys.exit(3)
