"""C14 — traversals and look-ups visit exactly the right nodes in the right order."""
import common
import shapes as SH

ORD = {"pre": "visit_preorder", "in": "visit_inorder", "post": "visit_postorder"}


def nid(n):
    return int(n.id[1:])


def calls_text(calls):
    return " ".join(f"{a}:{d}" for a, d in calls)


def run_visit(root, order, stop_id):
    from mathy_core.tree import STOP

    log = []

    def fn(node, depth, data):
        log.append((nid(node), depth))
        if nid(node) == stop_id:
            return STOP
        return None

    r = getattr(root, ORD[order])(fn)
    return ("STOP " if r == STOP else "DONE ") + calls_text(log)


def lookups(t, table, res, inp):
    """root / root-side / side / sibling / children / is_leaf of every node against the shape"""
    root = table[t[1]]
    for p in SH.paths(t):
        s = SH.sub(t, p)
        n = table[s[1]]
        bad = None
        if n.get_root() is not root:
            bad = "get_root"
        if p:
            par = SH.sub(t, p[:-1])
            parn = table[par[1]]
            if n.get_root_side() != ("left" if p[0] == "L" else "right"):
                bad = "get_root_side"
            if parn.get_side(n) != ("left" if p[-1] == "L" else "right"):
                bad = "get_side"
            sib = par[2] if p[-1] == "L" else par[0]
            got = n.get_sibling()
            if (sib is None) != (got is None) or (sib is not None and got is not table[sib[1]]):
                bad = "get_sibling"
        else:
            if n.get_sibling() is not None:
                bad = "get_sibling(root)"
        kids = [table[c[1]] for c in (s[0], s[2]) if c is not None]
        got = n.get_children()
        if len(got) != len(kids) or any(a is not b for a, b in zip(got, kids)):
            bad = "get_children"
        if n.is_leaf() != (s[0] is None and s[2] is None):
            bad = "is_leaf"
        if bad:
            res.failures.append(dict(**{"class": "lookup"}, input=dict(inp, node=p), detail=f"{bad} disagrees with the link structure"))


def expr_lookups(ctx, t, res, inp):
    """to_list / find_id / find_type on MathExpression nodes of three classes with colliding ids"""
    from mathy_core import expressions as E

    classes = [E.AddExpression, E.NegateExpression, E.MathExpression]

    def mk(i):
        n = classes[i % 3]()
        n.id = f"k{i % 7}"
        n._vid = i
        return n

    root, table = SH.build_nodes(t, mk)
    pre, ino, post = SH.orders(t)
    lines, got, exp = [], [], []
    for o, ref in (("preorder", pre), ("inorder", ino), ("postorder", post)):
        got.append("OK " + " ".join(str(n._vid) for n in root.to_list(o)))
        exp.append("OK " + " ".join(str(a) for a, _ in ref))
        lines.append(f"BTLIST {o[:-5]} {SH.text(t)}")
    for k in range(7):
        f = root.find_id(f"k{k}")
        got.append("NONE" if f is None else f"OK {f._vid}")
        first = [a for a, _ in ino if a % 7 == k]
        exp.append(f"OK {first[0]}" if first else "NONE")
        lines.append(f"BTFINDID {k} {SH.text(t)}")
    for k in range(3):
        got.append("OK " + " ".join(str(n._vid) for n in root.find_type(classes[k])))
        exp.append("OK " + " ".join(str(a) for a, _ in ino if (a % 3 == k) or (k == 2)))  # AddExpression/NegateExpression are MathExpressions too
        lines.append(None)
    model = common.drive([l for l in lines if l]) if ctx.driver_ok else None
    mi = 0
    for l, g, e in zip(lines, got, exp):
        res.evaluations += 1
        if g.strip() != e.strip():
            res.failures.append(dict(**{"class": "lookup-list"}, input=dict(inp, query=l or "find_type"), detail=f"got {g!r}, in-order definition gives {e!r}"))
        if l is not None and model is not None:
            if model[mi].strip() != g.strip():
                res.disagreements.append(dict(suite="traverse.lookup", input=dict(inp, query=l), impl=g, model=model[mi]))
            mi += 1


def run(ctx):
    res = ctx.res
    rnd = ctx.rnd
    nmax = 7 if ctx.tier == "quick" else 9
    res.rule = (f"ALL binary tree shapes with <= {nmax} nodes (each node 0 / left-only / right-only / 2 children) x three orders x every stop position "
                "(and no stop), plus random shapes up to 40 nodes; look-ups at every node; distinct non-trivial = distinct (shape, order, stop position) with >= 2 nodes")
    res.suites = ["traverse (callback log (node, depth) and STOP result vs extracted Bt.visit_* with a logging visitor)",
                  "oracle: the log is the prefix of the defining order up to and including the stop node, with true depths; get_root/get_root_side/get_side/"
                  "get_sibling/get_children/is_leaf agree with the shape; to_list/find_id/find_type agree with the in-order definition"]
    shapes = [SH.label(s)[0] for s in SH.shapes_upto(nmax)]
    for _ in range(ctx.n(60, 600)):
        shapes.append(SH.label(SH.random_shape(rnd, rnd.randint(8, 40)))[0])
    res.dist["exhaustive_upto_nodes"] = nmax
    lines, meta = [], []
    big = 0
    for t in shapes:
        n = SH.size(t)
        stops = list(range(n)) + [-1] if n <= nmax else [rnd.randrange(n), rnd.randrange(n), -1]
        for o in ORD:
            for st in stops:
                lines.append(f"BTVISIT {o} {st} {SH.text(t)}")
                meta.append((t, o, st))
    model = common.drive(lines) if ctx.driver_ok else [None] * len(lines)
    last = None
    for (t, o, st), m in zip(meta, model):
        res.evaluations += 1
        if t is not last:
            root, table = SH.build_nodes(t)
            refs = dict(zip(("pre", "in", "post"), SH.orders(t)))
            last = t
            inp0 = dict(shape=SH.text(t))
            lookups(t, table, res, inp0)
            if SH.size(t) <= 6 or rnd.random() < 0.05:
                expr_lookups(ctx, t, res, inp0)
        got = run_visit(root, o, st)
        inp = dict(shape=SH.text(t), order=o, stop_at=st)
        if SH.size(t) >= 2:
            res.nontrivial.add((SH.text(t), o, st))
        if m is not None and m.strip() != got.strip():
            res.disagreements.append(dict(suite="traverse", input=inp, impl=got, model=m))
        ref = refs[o]
        if st >= 0:
            k = [a for a, _ in ref].index(st)
            exp = "STOP " + calls_text(ref[: k + 1])
        else:
            exp = "DONE " + calls_text(ref)
        if got.strip() != exp.strip():
            res.failures.append(dict(**{"class": "traversal"}, input=inp, detail=f"callbacks {got!r}; the defining order gives {exp!r}"))
        if SH.size(t) == 6 and st == 3:
            res.sample(dict(inp, callbacks=got))
    res.dist["shapes"] = len(shapes)


def replay(payload):
    f = payload["finding"]
    print("finding:", f.get("class"), f.get("detail"))
    inp = f["input"]
    t = SH.parse_text(inp["shape"])
    if "order" in inp:
        root, _ = SH.build_nodes(t)
        print("implementation:", run_visit(root, inp["order"], inp["stop_at"]))
        print("model:", common.drive([f"BTVISIT {inp['order']} {inp['stop_at']} {inp['shape']}"]))
