"""C05 — evaluation computes the mathematically correct number."""
import math
from fractions import Fraction as F

import common
import gens
import pyside as P


def num_arg(v):
    if v is None:
        return "none"
    return P.num_text(P.num_tuple(v))


def impl_eval(t, env):
    try:
        v = P.build(t).evaluate({chr(k): x for k, x in env.items()} if env is not None else None)
    except ValueError:
        return ("EXC", "ValueError")
    except Exception as e:
        return ("EXC", "INTERNAL-" + type(e).__name__)
    return ("OK", v)


def py_ref(t, env):
    """reference evaluation in exact Python arithmetic (int stays int, Fraction for floats); None = undefined/irrational."""
    fenv = {}
    for k, x in env.items():
        if x is None:
            continue
        fenv[k] = F(x)
    st = [F(0)]
    try:
        v = P.eval_exact(t, fenv, st)
    except (P.Undefined, P.Irrational, OverflowError):
        return None
    py_ref.scale = st[0]
    return v


def int_only(t, env):
    def go(n):
        if n[0] == "c":
            return n[1][0] == "i"
        if n[0] == "v":
            return isinstance(env.get(n[1]), int)
        if n[0] in ("div", "sgn"):
            return False
        if n[0] == "pow":
            return go(n[1]) and n[2][0] == "c" and n[2][1][0] == "i" and 0 <= n[2][1][1] <= 40
        if n[0] == "fact":
            return n[1][0] == "c" and n[1][1][0] == "i" and 0 <= n[1][1][1] <= 30
        return all(go(a) for a in n[1:])
    return go(t)


INTS = [0, 1, -1, 2, 3, -7, 12, 10 ** 12, -10 ** 20, 2 ** 63, 2 ** 64 + 1, 10 ** 40, 97]
SMALL_INTS = [0, 1, -1, 2, 3, -7, 12, 97, 1000, -250]
FLTS = [0.5, -2.5, 0.25, 3.0, 1.5, 0.1, 11.8, -0.75, 1e3, 2.0]


def tree(rnd, d, big):
    """big=True: int-only regime with constants and results of any magnitude (no '/', no floats);
    big=False: mixed int/float regime with moderate magnitudes (float conversion exact, no overflow)."""
    if d == 0 or rnd.random() < 0.25:
        r = rnd.random()
        if r < 0.35:
            return P.V(rnd.choice("xyz"))
        if r < 0.7 or big:
            return P.C(rnd.choice([0, 1, 2, 3, 5, 7, 10, -1, -4, 12, 2 ** 31, 10 ** 15, 64, 63, 100] if big else [0, 1, 2, 3, 5, 7, 10, -1, -4, 12]))
        return ("c", ("f", F(rnd.choice(FLTS))))
    k = rnd.choice(["add", "add", "sub", "mul", "mul", "pow", "neg", "fact", "eq", "abs"] if big else ["add", "add", "sub", "mul", "mul", "div", "pow", "neg", "fact", "sgn", "eq", "abs"])
    if k == "fact":
        return ("fact", P.C(rnd.choice([0, 1, 3, 5, 10, 20, 25] if big else [0, 1, 3, 5])))
    if k == "pow":
        # exponents stay small constants (a variable or nested power as exponent can make the exact value astronomically large)
        base = tree(rnd, min(d - 1, 1), big)
        if "pow" in P.sx_text(base) or "fact" in P.sx_text(base):
            base = P.V(rnd.choice("xyz"))
        ex = rnd.choice([0, 1, 2, 3, 5, 16, 40, 64, 70] if big else [0, 1, 2, 3, -1, -2])
        return ("pow", base, P.C(ex)) if rnd.random() < 0.85 or big else ("pow", base, ("c", ("f", F(rnd.choice([0.5, 2.0, 1.5, -1.0])))))
    if k == "eq":
        a = tree(rnd, d - 1, big)
        return ("eq", a, a if rnd.random() < 0.6 else tree(rnd, d - 1, big))
    if k in P.UN:
        return (k, tree(rnd, d - 1, big))
    return (k, tree(rnd, d - 1, big), tree(rnd, d - 1, big))


def run(ctx):
    res = ctx.res
    rnd = ctx.rnd
    res.rule = ("trees over + - * / ^ ! sgn neg = with ints up to 10^40, 2^63, 2^64+1, dyadic and non-dyadic floats; environments with ints of any magnitude, "
                "floats, missing and None-valued variables; distinct = distinct (tree, env); non-trivial = tree with >= 3 nodes")
    res.suites = ["eval (MathExpression.evaluate vs extracted Eval.eval: int results exactly, floats within 1e-9 relative, error kinds)",
                  "oracle: exact int/Fraction reference evaluation; int-only expressions must be exact ints; missing variable -> ValueError; x/0 -> nan; equation semantics"]
    cases = []
    n = ctx.n(4000, 60000)
    for i in range(n):
        big = i % 2 == 0
        t = tree(rnd, rnd.randint(1, 4), big)
        env = {}
        for v in P.sx_vars(t):
            r = rnd.random()
            if r < 0.08:
                continue
            if r < 0.12:
                env[v] = None
            elif r < 0.7 or big:
                env[v] = rnd.choice(INTS if big else SMALL_INTS)
            else:
                env[v] = rnd.choice(FLTS)
        cases.append((t, env))
    # equations whose sides differ by one unit in the last place of a LARGE integer (or by 1 at 10^12): unequal sides must raise,
    # whatever the magnitude; and the equal twin must evaluate
    X, Y = P.V("x"), P.V("y")
    for _ in range(ctx.n(60, 600)):
        b = rnd.choice([10 ** rnd.randint(9, 30), 2 ** rnd.randint(40, 80), 5 * 10 ** 15]) + rnd.randint(0, 9)
        d = rnd.choice([1, 1, 2, 3, -1])
        sh = rnd.randrange(5)
        if sh == 0:
            cases += [(("eq", X, Y), {ord("x"): b, ord("y"): b + d}), (("eq", X, Y), {ord("x"): b, ord("y"): b})]
        elif sh == 1:
            cases += [(("eq", ("add", X, P.C(d)), X), {ord("x"): b}), (("eq", ("add", X, P.C(0)), X), {ord("x"): b})]
        elif sh == 2:
            cases += [(("eq", ("mul", P.C(2), X), Y), {ord("x"): b, ord("y"): 2 * b + d}), (("eq", ("mul", P.C(2), X), Y), {ord("x"): b, ord("y"): 2 * b})]
        elif sh == 3:
            cases += [(("eq", P.C(b), P.C(b + d)), {}), (("eq", ("sub", Y, X), P.C(0)), {ord("x"): b, ord("y"): b + d})]
        else:
            cases += [(("eq", ("mul", X, X), ("add", ("mul", X, X), P.C(d))), {ord("x"): b})]
    lines = [f"EVAL {P.sx_text(t)} ; " + " ".join(f"{k}={num_arg(x)}" for k, x in env.items()) for t, env in cases]
    model = common.drive(lines) if ctx.driver_ok else [None] * len(cases)
    for (t, env), m in zip(cases, model):
        res.evaluations += 1
        py = impl_eval(t, env)
        key = (P.sx_text(t), tuple(sorted((k, repr(x)) for k, x in env.items())))
        if P.sx_size(t) >= 3:
            res.nontrivial.add(key)
        inp = dict(tree=P.sx_text(t), env={chr(k): repr(x) for k, x in env.items()})
        # ---- correspondence
        if m is not None:
            if m.startswith("OK "):
                mt = P.sx_parse(f"(c {m[3:]})")[1]
                if mt[0] == "nan":
                    # a non-finite RESULT of an operation on finite operands (x / 0, 0 ^ -1): the implementation returns nan or inf
                    ok = py[0] == "OK" and isinstance(py[1], float) and (py[1] != py[1] or py[1] in (float("inf"), float("-inf")))
                    res.count("nonfinite-result")
                else:
                    ok = py[0] == "OK" and P.num_close(P.num_tuple(py[1]), mt)
            elif m in ("INEXACT", "NONFINITE"):
                # outside the exact model (an irrational power; arithmetic on a nan/inf operand): nothing to compare
                ok = True
                res.count(m.lower())
            else:
                ok = py == ("EXC", m[4:])
            if not ok:
                res.disagreements.append(dict(suite="eval", input=inp, impl=repr(py), model=m))
        res.count(py[1] if py[0] == "EXC" else "ok")
        # ---- oracle
        missing = [v for v in P.sx_vars(t) if env.get(v) is None]
        ref = py_ref(t, env) if not missing else None
        if py[0] == "EXC" and py[1].startswith("INTERNAL"):
            res.failures.append(dict(**{"class": "internal-exception"}, input=inp, detail=py[1]))
        elif not missing and ref is not None and py[0] == "OK":
            v = py[1]
            if int_only(t, env):
                if not isinstance(v, int) or isinstance(v, bool) or v != ref:
                    res.failures.append(dict(**{"class": "int-inexact"}, input=inp, detail=f"integer expression evaluated to {v!r} ({type(v).__name__}), exact value {ref}"))
            else:
                fv = float(v)
                if fv != fv or fv in (float("inf"), float("-inf")):
                    if abs(ref) < 10 ** 300:
                        res.failures.append(dict(**{"class": "wrong-value"}, input=inp, detail=f"evaluated to {v!r}, exact value {ref}"))
                elif abs(F(fv) - ref) > F(1, 10 ** 9) * max(1, abs(ref), py_ref.scale):
                    res.failures.append(dict(**{"class": "wrong-value"}, input=inp, detail=f"evaluated to {v!r}, exact value {ref}"))
        elif (not missing and ref is None and py[0] == "OK" and t[0] == "eq" and int_only(t, env)
              and py_ref(t[1], env) is not None and py_ref(t[2], env) is not None and py_ref(t[1], env) != py_ref(t[2], env)):
            res.failures.append(dict(**{"class": "unequal-equation-accepted"}, input=inp,
                                     detail=f"sides are {py_ref(t[1], env)} and {py_ref(t[2], env)} but evaluate returned {py[1]!r} instead of raising"))
        elif not missing and ref is not None and py[0] == "EXC":
            res.failures.append(dict(**{"class": "defined-raises"}, input=inp, detail=f"raises {py[1]} although the exact value is {ref}"))
        if len(res.samples) < 6 and P.sx_size(t) > 5:
            res.sample(dict(tree=P.sx_text(t), env=inp["env"], result=repr(py)))
    # directed clauses
    for v in "xy":
        t = ("add", P.V(v), P.C(1))
        for env in ({}, {ord(v): None}, None):
            res.evaluations += 1
            py = impl_eval(t, env)
            if py != ("EXC", "ValueError"):
                res.failures.append(dict(**{"class": "missing-variable-defaulted"}, input=dict(tree=P.sx_text(t), env=repr(env)), detail=repr(py)))
    for a in (1, 0, -3, 2.5, 10 ** 30):
        for z in (0, 0.0):
            res.evaluations += 1
            py = impl_eval(("div", ("c", P.num_tuple(a)), ("c", P.num_tuple(z))), {})
            if not (py[0] == "OK" and isinstance(py[1], float) and py[1] != py[1]):
                res.failures.append(dict(**{"class": "division-by-zero"}, input=dict(tree=f"{a} / {z}"), detail=repr(py)))
    abs_oracle(res, rnd, ctx.n(300, 6000))
    # ... also when the zero is the VALUE of an expression, whatever number type carries it (seed C05-D: a numpy zero coming out of
    # np.power slipped past a ZeroDivisionError handler and gave inf): denominators that are exactly zero and exactly representable
    X, Y = P.V("x"), P.V("y")
    zeros = [(("sub", X, X), {"x": 3}), (("sub", X, X), {"x": 2.5}), (("mul", P.C(0), X), {"x": 7}), (("neg", P.C(0)), {}),
             (("sub", ("pow", X, P.Cf(1, 2)), P.C(2)), {"x": 4}), (("sub", ("pow", X, P.Cf(1, 2)), P.C(2)), {"x": 4.0}),
             (("sub", ("pow", X, P.C(-1)), P.Cf(1, 2)), {"x": 2}), (("sub", ("pow", X, P.C(-2)), P.Cf(1, 4)), {"x": -2}),
             (("sub", ("pow", P.C(2), X), P.C(1)), {"x": 0.0}), (("sub", ("div", X, P.C(2)), P.C(1)), {"x": 2}),
             (("sub", ("pow", X, Y), P.C(8)), {"x": 2.0, "y": 3}), (("sub", ("pow", X, Y), P.C(8)), {"x": 2, "y": 3.0}),
             (("add", ("pow", X, P.C(3)), P.C(8)), {"x": -2.0}), (("mul", ("pow", X, P.Cf(1, 2)), P.C(0)), {"x": 9})]
    for z, env0 in zeros:
        env = {ord(k): v for k, v in env0.items()}
        for a in (P.C(1), P.C(-1), Y if "y" not in env0 else P.C(5), ("mul", P.C(3), X)):
            e2 = dict(env)
            if a == Y:
                e2[ord("y")] = -3
            e2.setdefault(ord("x"), 1)
            for t in (("div", a, z), ("add", P.C(1), ("div", a, z)), ("div", P.C(7), ("div", a, z))):
                res.evaluations += 1
                py = impl_eval(t, e2)
                if not (py[0] == "OK" and isinstance(py[1], float) and py[1] != py[1]):
                    res.failures.append(dict(**{"class": "division-by-zero"}, input=dict(tree=P.sx_text(t), env={chr(k): repr(v) for k, v in e2.items()}),
                                             detail=f"the denominator {P.sx_text(z)} is exactly zero; evaluated to {py!r} instead of nan"))


def build_abs(t):
    """like P.build, plus ('abs', t): AbsExpression (a public expression class; `abs` is not a registered function name of the parser,
    so such trees come from the constructors only and are outside the Coq models - the oracle below is what covers them)"""
    from mathy_core import expressions as E
    if t[0] == "abs":
        return E.AbsExpression(build_abs(t[1]))
    if t[0] in ("c", "v"):
        return P.build(t)
    C = P.classes()
    return C[t[0]](*[build_abs(a) for a in t[1:]])


def ref_abs(t, env):
    if t[0] == "abs":
        return abs(ref_abs(t[1], env))
    if t[0] == "c":
        return t[1][1] if t[1][0] == "i" else F(t[1][1])
    if t[0] == "v":
        return env[t[1]]
    if t[0] == "neg":
        return -ref_abs(t[1], env)
    a, b = ref_abs(t[1], env), ref_abs(t[2], env)
    return a + b if t[0] == "add" else a - b if t[0] == "sub" else a * b if t[0] == "mul" else a ** b


def abs_oracle(res, rnd, n):
    """absolute values of ints of any magnitude stay exact Python-int arithmetic (an np.int64 leaking out of abs wraps in the next operation)"""
    X, Y = P.V("x"), P.V("y")
    shapes = [("abs", X), ("mul", ("abs", X), ("abs", Y)), ("add", ("abs", X), Y), ("pow", ("abs", X), P.C(2)), ("abs", ("sub", X, Y)),
              ("abs", ("mul", X, Y)), ("neg", ("abs", ("neg", X))), ("mul", ("abs", X), P.C(2 ** 40)), ("sub", ("abs", X), ("abs", Y)), ("abs", ("abs", X))]
    vals = [0, 1, -1, 5, -7, 2 ** 31, -2 ** 31, 2 ** 40, -2 ** 40, 2 ** 62, -2 ** 63, 2 ** 63, -2 ** 63 - 1, 2 ** 64 + 1, -10 ** 30, 10 ** 40]
    for _ in range(n):
        t = rnd.choice(shapes)
        env = {ord("x"): rnd.choice(vals), ord("y"): rnd.choice(vals)}
        res.evaluations += 1
        try:
            v = build_abs(t).evaluate({chr(k): x for k, x in env.items()})
            py = ("OK", v)
        except Exception as e:
            py = ("EXC", type(e).__name__)
        ref = ref_abs(t, env)
        inp = dict(tree=P.sx_text(t), env={chr(k): repr(x) for k, x in env.items()})
        if py[0] != "OK":
            res.failures.append(dict(**{"class": "defined-raises"}, input=inp, detail=f"raises {py[1]} although the exact value is {ref}"))
        elif isinstance(py[1], float) or int(py[1]) != ref:
            res.failures.append(dict(**{"class": "int-inexact"}, input=inp, detail=f"integer expression with abs evaluated to {py[1]!r} ({type(py[1]).__name__}), exact value {ref}"))
        res.nontrivial.add(("abs", P.sx_text(t), tuple(sorted(env.items()))))


def replay(payload):
    f = payload["finding"]
    print("finding:", f.get("class"), f.get("detail"))
    print("input:", f["input"])
    t = P.sx_parse(f["input"]["tree"]) if f["input"]["tree"].startswith("(") else None
    if t is not None:
        env = {ord(k): eval(v) for k, v in f["input"].get("env", {}).items()} if isinstance(f["input"].get("env"), dict) else {}
        print("implementation:", impl_eval(t, env))
