"""C04 — printing an expression and parsing it back preserves its meaning."""
import common
import gens
import pyside as P
import rulesuite as RS
from suites.c03 import impl_parse


def printable(t, top=True, left_spine=True):
    """trees inside the quantifier of C04: reachable from the parser and the rules with finite constants:
    factorial operands are literals; '=' only along the left spine from the root."""
    k = t[0]
    if k == "c":
        return t[1][0] != "nan"
    if k == "v":
        return True
    if k == "fact":
        return t[1][0] == "c" and printable(t[1], False, False)
    if k in P.UN:
        return printable(t[1], False, False)
    if k == "eq":
        if not left_spine:
            return False
        return printable(t[1], False, True) and printable(t[2], False, False)
    return printable(t[1], False, False) and printable(t[2], False, False)


def model_print(trees):
    out = common.drive([f"PRINT {P.sx_text(t)}" for t in trees])
    return ["".join(chr(int(c)) for c in o.split()[1:]) if o.startswith("OK") else None for o in out]


def dyadic_consts(t):
    if t[0] == "c":
        n = t[1]
        if n[0] == "f":
            d = n[1].denominator
            return d & (d - 1) == 0 and d <= 1024 and abs(n[1]) < 10 ** 9
        return True
    if t[0] == "v":
        return True
    return all(dyadic_consts(a) for a in t[1:])


def roundtrip(ctx, t, text):
    """oracle on the implementation: parse(str(t)) succeeds, same variables, same exact values (same solution set)."""
    py = impl_parse(text)
    if py[0] != "OK":
        return dict(**{"class": "reparse-fails"}, detail=f"str(tree) = {text!r} raises {py[1]}")
    t2 = py[1]
    if P.sx_vars(t) != P.sx_vars(t2):
        return dict(**{"class": "variables"}, detail=f"{text!r} re-parses with other variables", reparsed=P.sx_text(t2))
    bad = RS.check_values(ctx.rnd, t, t2, 8)
    if bad:
        return dict(**{"class": "roundtrip-" + bad[0]}, detail=bad[1], text=text, reparsed=P.sx_text(t2))
    return None


def classify(t):
    """structural tag of the first parent/child pair the unrepaired printer gets wrong (for known-finding matchers)."""
    tags = set()

    def go(n, parent):
        if n[0] == "eq" and parent is not None and parent != "eq-left":
            tags.add("eq-below-operator")
        if n[0] == "fact" and n[1][0] != "c":
            tags.add("factorial-of-non-literal")
        if n[0] in ("c", "v"):
            return
        if n[0] in P.UN:
            go(n[1], n[0])
        else:
            go(n[1], "eq-left" if n[0] == "eq" and (parent is None or parent == "eq-left") else n[0])
            go(n[2], n[0])
    go(t, None)
    return sorted(tags)


def trees(ctx):
    rnd = ctx.rnd
    ts = []
    n = ctx.n(3000, 40000)
    for i in range(n):
        d = rnd.randint(1, 4)
        t = P.rtree_any(rnd, d)
        if rnd.random() < 0.25:
            t = ("eq", t, P.rtree_any(rnd, rnd.randint(0, 3)))
        ts.append(t)
    # parser outputs
    for s in gens.strings(rnd, ctx.n(1500, 20000)):
        py = impl_parse(s)
        if py[0] == "OK":
            ts.append(py[1])
    # every (parent kind, side, child kind) triple with small payload classes
    exps = [P.C(2), P.C(-2), ("add", P.C(1), P.C(3)), ("neg", P.V("y")), ("sgn", P.V("y")), ("pow", P.C(2), P.C(3)), ("mul", P.C(2), P.V("y")), ("fact", P.C(3)), ("div", P.C(1), P.C(2))]
    leafs = [P.C(2), P.C(-2), P.Cf(1, 2), P.V("x"), ("mul", P.C(2), P.V("x")), ("mul", P.C(-2), P.V("x")), ("mul", P.C(2), ("pow", P.V("x"), P.C(2)))]
    leafs += [("mul", P.C(4), ("pow", P.V("x"), e)) for e in exps] + [("pow", P.V("x"), e) for e in exps] + [("pow", P.C(3), e) for e in exps[:6]]
    leafs += [("fact", P.C(3)), ("neg", ("fact", P.C(3))), ("neg", P.V("x")), ("neg", P.C(2)), ("sgn", P.V("x"))]
    kinds = ["add", "sub", "mul", "div", "pow", "neg", "sgn"]

    def mk(k, a, b):
        return (k, a) if k in P.UN else (k, a, b)
    inner = [mk(k, a, b) for k in kinds for a in leafs[:5] for b in leafs[:2]] + leafs
    for k in kinds:
        for ch in inner:
            for o in (P.V("y"), P.C(3), ("neg", P.V("z"))):
                ts.append(mk(k, ch, o))
                if k not in P.UN:
                    ts.append(mk(k, o, ch))
    seen, out = set(), []
    for t in ts:
        s = P.sx_text(t)
        if s not in seen:
            seen.add(s)
            out.append(t)
    return out


def run(ctx):
    res = ctx.res
    res.rule = ("trees: random constructor-built trees (all kinds incl. Negate of Negate, Power of Negate/Power/compact product, sgn, factorial of literals, "
                "equations), parser outputs of generated strings, and every (parent kind, side, child kind) triple over 7 payload classes; restricted to "
                "the quantifier of C04 (finite constants, factorial of literals, '=' on the left spine); distinct = distinct tree; non-trivial = >= 3 nodes")
    res.suites = ["print (str(tree) vs extracted Printer.show_top: exact text for dyadic constants, token-wise otherwise)",
                  "oracle: parse(str(t)) succeeds, same variable set, same exact values / same solution set at 8+ assignments"]
    ts = [t for t in trees(ctx) if printable(t)]
    # constants whose decimal text has zeros directly after the point (0.0078125), large integer parts, negative fractions
    from fractions import Fraction as F
    decs = [("c", ("f", F(n, d))) for n, d in [(1, 128), (1, 64), (1, 1024), (3, 256), (-5, 512), (100001, 1000 * 1), (1, 16), (-1, 32), (12345, 1024), (7, 8), (1, 512)]
            if d & (d - 1) == 0] + [("c", ("f", F(100, 1) + F(1, 1024))), ("c", ("f", F(-3, 1) - F(1, 64)))]
    # magnitudes at which repr() of a float switches to exponent notation (below 1e-4, from 1e16): seed C04-C printed 1e-05
    decs += [("c", ("f", F(n, d))) for n, d in [(1, 16384), (1, 2 ** 20), (-3, 2 ** 17), (5, 2 ** 30), (1, 100000), (31, 1000000), (-7, 10 ** 7)]]
    decs += [("c", ("f", F(v))) for v in (2.0 ** 60, 1e16, 1e22, -(2.0 ** 70), 123456789012345680000.0)]
    x = P.V("x")
    for c in decs:
        ts += [c, ("mul", c, x), ("mul", c, ("pow", x, P.C(2))), ("pow", x, c), ("neg", c), ("add", x, c), ("pow", c, P.C(2)), ("eq", ("mul", c, x), c), ("neg", ("mul", c, x)), ("div", c, ("sub", x, c))]
    model = model_print(ts) if ctx.driver_ok else [None] * len(ts)
    for t, m in zip(ts, model):
        res.evaluations += 1
        try:
            text = str(P.build(t))
        except Exception as e:
            res.failures.append(dict(**{"class": "str-raises"}, input=dict(tree=P.sx_text(t)), detail=repr(e)))
            continue
        if P.sx_size(t) >= 3:
            res.nontrivial.add(P.sx_text(t))
        res.count(f"depth{P.sx_depth(t)}")
        if ctx.driver_ok and dyadic_consts(t) and m != text:
            res.disagreements.append(dict(suite="print", input=dict(tree=P.sx_text(t)), impl=text, model=m))
        bad = roundtrip(ctx, t, text)
        if bad:
            bad["input"] = dict(tree=P.sx_text(t), text=text)
            bad["shape"] = classify(t)
            res.failures.append(bad)
        if P.sx_size(t) > 6:
            res.sample(dict(tree=P.sx_text(t), text=text))


def replay(payload):
    f = payload["finding"]
    t = P.sx_parse(f["input"]["tree"])
    text = str(P.build(t))
    print("tree:", P.sx_text(t))
    print("str :", repr(text))
    py = impl_parse(text)
    print("re-parsed:", py[0], P.sx_text(py[1]) if py[0] == "OK" else py[1])
    print("model text:", model_print([t]))
    print("finding:", f.get("class"), f.get("detail"))
