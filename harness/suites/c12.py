"""C12 — parser results do not depend on call history (also the 'no sticky state' clause of C10)."""
import common
import gens
import pyside as P
from suites.c03 import impl_parse

POOL = ["43", "4 3", "1.5", "1 .5", "sgn(x)", "s gn(x)", "sg n(x)", "xy", "x y", "12x", "1 2x", "Sgn(x)", "4x", "4x + 2", "x +", "2 3", "(", "1.2.3", "x#", "sgn(x)", "xy^2", "8/4/2", "a = b", "", "-3", "5!", "x^", "7.", "2x^2 + 3y", "(x)(y)", "x -"]


def history(rnd, maxlen=12):
    ops = []
    handed = 0
    pool = [rnd.choice(POOL) for _ in range(6)] + [gens.valid_expr(rnd, 2) for _ in range(2)] + [gens.soup(rnd, 6)]
    for s in list(pool[:5]):
        pool += gens.space_variants(rnd, s)[:2]
    for _ in range(rnd.randint(1, maxlen)):
        r = rnd.random()
        if r < 0.4:
            ops.append(("P", rnd.choice(pool)))
        elif r < 0.65:
            ops.append(("T", rnd.choice(pool)))
            handed += 1   # counted only if it succeeds; fixed up when running
        elif r < 0.72:
            ops.append(("C",))
        elif r < 0.85:
            ops.append(("POP", rnd.randint(0, max(0, handed))))
        elif r < 0.95:
            ops.append(("SET", rnd.randint(0, max(0, handed)), rnd.randint(0, 3), rnd.choice([(2, "y"), (1, "9"), (8192, ""), (4, "+")])))
        else:
            ops.append(("CLR", rnd.randint(0, max(0, handed))))
    return ops, rnd.choice(pool)


def toks_out(ts):
    return "TOKS " + " ".join(f"{t.type}:{'.'.join(str(ord(c)) for c in t.value)}" for t in ts)


def run_impl(ops, parser=None):
    from mathy_core.parser import ExpressionParser
    from mathy_core.tokenizer import Token

    p = parser or ExpressionParser()
    handed = []
    outs = []
    for o in ops:
        if o[0] == "P":
            r = impl_parse(o[1], p)
            outs.append(("OK " + P.sx_text(r[1])) if r[0] == "OK" else f"EXC {r[1]}")
        elif o[0] == "T":
            try:
                ts = p.tokenize(o[1])
                handed.append(ts)
                outs.append(toks_out(ts))
            except ValueError:
                outs.append("EXC ValueError")
            except Exception as e:
                outs.append("EXC INTERNAL-" + type(e).__name__)
        elif o[0] == "C":
            p.clear_cache()
            outs.append("-")
        else:
            k = o[1]
            if k < len(handed):
                lst = handed[k]
                if o[0] == "POP":
                    if lst:
                        lst.pop(0)
                elif o[0] == "CLR":
                    lst.clear()
                elif o[0] == "SET":
                    if o[2] < len(lst):
                        lst[o[2]] = Token(o[3][1], o[3][0])
            outs.append("-")
    return outs, p


def hist_line(ops):
    parts = []
    for o in ops:
        if o[0] in ("P", "T"):
            parts.append(f"{o[0]} {gens.cps(o[1])}")
        elif o[0] == "C":
            parts.append("C")
        elif o[0] == "SET":
            parts.append(f"SET {o[1]} {o[2]} {o[3][0]}:{'.'.join(str(ord(c)) for c in o[3][1])}")
        else:
            parts.append(f"{o[0]} {o[1]}")
    return "HIST " + " | ".join(parts)


def same_out(a, b):
    if a.startswith("OK ") and b.startswith("OK "):
        return P.sx_same(P.sx_parse(a[3:]), P.sx_parse(b[3:]))
    return a == b


def check_histories(ctx, n, suite_name):
    res = ctx.res
    rnd = ctx.rnd
    hs = [history(rnd) for _ in range(n)]
    lines = [hist_line(ops + [("P", q), ("T", q)]) for ops, q in hs]
    model = common.drive(lines) if ctx.driver_ok else [None] * len(hs)
    for (ops, q), m in zip(hs, model):
        res.evaluations += 1
        full = ops + [("P", q), ("T", q)]
        outs, parser = run_impl(full)
        inp = dict(history=[list(map(str, o)) for o in ops], query=q)
        if len(ops) >= 3:
            res.nontrivial.add(hist_line(full))
        for o in ops:
            res.count(o[0])
        if m is not None:
            mo = m.split(" | ")
            if len(mo) != len(outs) or not all(same_out(a, b) for a, b in zip(outs, mo)):
                res.disagreements.append(dict(suite=suite_name, input=inp, impl=outs, model=mo))
        # oracle: a fresh parser gives the same answers for the query
        fresh, _ = run_impl([("P", q), ("T", q)])
        if not (same_out(outs[-2], fresh[0]) and outs[-1] == fresh[1]):
            res.failures.append(dict(**{"class": "history-dependent"}, input=inp, detail=dict(used=outs[-2:], fresh=fresh)))
        if any(o.startswith("EXC INTERNAL") for o in outs):
            res.failures.append(dict(**{"class": "internal-exception"}, input=inp, detail=[o for o in outs if o.startswith("EXC INTERNAL")]))
        # token lists handed out are distinct objects and distinct from the cache
        ts1 = parser.tokenize("4x + 2")
        ts2 = parser.tokenize("4x + 2")
        if ts1 is ts2 or ts1 is parser._tokens_cache.get("4x + 2"):
            res.failures.append(dict(**{"class": "shared-token-list"}, input=inp, detail="tokenize returned the same list object twice / the cached list"))
        if len(ops) > 4:
            res.sample(dict(history=inp["history"], query=q, answers=outs[-2:]))


def run(ctx):
    res = ctx.res
    res.rule = ("call histories of length 1..12 on one ExpressionParser: parse / tokenize of valid, failing and unsupported texts (repeated texts likely), "
                "clear_cache, and a client popping from / overwriting / clearing the token lists it was handed; then a query string; distinct = distinct "
                "history+query; non-trivial = at least 3 operations before the query")
    res.suites = ["history (every output of the history vs extracted ParserObj.pstep)",
                  "oracle: parse/tokenize of the query on the used parser = on a fresh ExpressionParser(); handed lists are distinct objects"]
    check_histories(ctx, ctx.n(2500, 40000), "history")


def replay(payload):
    f = payload["finding"]
    print("finding:", f.get("class"), f.get("detail"))
    print("input:", f["input"])
