"""C08 — each rule performs its documented transformation on its documented forms."""
from fractions import Fraction as F

import common
import pyside as P
import rulesuite as RS

C, Cf, V = P.C, P.Cf, P.V


def ac_norm(t):
    """normal form up to order and grouping of the operands of + and * (constants as exact numbers)"""
    k = t[0]
    if k == "c":
        n = t[1]
        return ("c", F(n[1]) if n[0] != "nan" else None)
    if k == "v":
        return t
    if k in ("add", "mul"):
        ops = []

        def flat(x):
            if x[0] == k:
                flat(x[1])
                flat(x[2])
            else:
                ops.append(ac_norm(x))
        flat(t)
        return (k, tuple(sorted(ops, key=repr)))
    return (k,) + tuple(ac_norm(a) for a in t[1:])


def coef(rnd, allow_one=True):
    c = rnd.choice([2, 3, 4, 5, 6, 7, 8, 9, 10, 12, 14, 15, -2, -3, -4, -6, 20, 100] + ([1] if allow_one else []))
    if rnd.random() < 0.15:
        return Cf(rnd.choice([1, 3, 5, 7, -3]), 2)
    return C(c)


def expo(rnd):
    return rnd.choice([C(2), C(3), C(4), C(5), C(-1), Cf(1, 2), C(0), C(7)])


def term(c, v, e):
    x = V(v) if e is None else ("pow", V(v), e)
    if c is None:
        return x
    return ("mul", c, x)


def operand(rnd):
    """an arbitrary operand that is not a sum / product chain head (keeps schemas in their simple position)"""
    return rnd.choice([V(rnd.choice("abxyz")), C(rnd.choice([1, 2, 7, -3])), ("neg", V("y")), ("pow", V("z"), C(2)), ("div", V("a"), C(2)), ("sgn", V("x"))])


def cnum(t):
    return F(t[1][1])


def schemas(rnd):
    """yields (rule code, tree, node path, expected result node or checker, kind) for one random instance of every documented form"""
    out = []
    a, b, c_ = operand(rnd), operand(rnd), operand(rnd)
    # commutative swap
    out.append(("CS1", ("add", a, b), "", ("add", b, a), "shape"))
    out.append(("CS1", ("mul", a, b), "", ("mul", b, a), "shape"))
    out.append(("CS1", ("sub", a, b), "", None, "reject"))
    out.append(("CS1", ("div", a, b), "", None, "reject"))
    out.append(("CS0", ("mul", coef(rnd), V("x")), "", None, "reject"))               # 4x is already in preferred order
    out.append(("CS0", ("mul", V("x"), coef(rnd)), "", None, "accept"))
    # associative: (a + b) + c  ->  a + (b + c)
    out.append(("AS0", ("add", ("add", a, b), c_), "L", ("add", a, ("add", b, c_)), "shape-parent"))
    out.append(("AS0", ("mul", a, ("mul", b, c_)), "R", ("mul", ("mul", a, b), c_), "shape-parent"))
    out.append(("AS0", ("sub", ("add", a, b), c_), "L", None, "reject"))
    # constant arithmetic
    c1, c2 = coef(rnd), coef(rnd)
    for op in ("add", "sub", "mul"):
        v = {"add": cnum(c1) + cnum(c2), "sub": cnum(c1) - cnum(c2), "mul": cnum(c1) * cnum(c2)}[op]
        out.append(("CA0", (op, c1, c2), "", ("value", v), "const"))
    if cnum(c2) != 0:
        out.append(("CA0", ("div", c1, c2), "", ("value", cnum(c1) / cnum(c2)), "const"))
    out.append(("CA0", ("pow", C(rnd.choice([2, 3, -2, 10])), C(rnd.choice([0, 1, 2, 5, 20]))), "", None, "accept"))
    out.append(("CA0", ("add", c1, V("x")), "", None, "reject"))
    # factor out  a x^n + b x^n
    v = rnd.choice("xyz")
    e = rnd.choice([None, expo(rnd)])
    ca, cb = coef(rnd), coef(rnd)
    out.append(("DF0", ("add", term(ca, v, e), term(cb, v, e)), "", ("factor", cnum(ca), cnum(cb), v, e), "factor"))
    out.append(("DF0", ("add", term(None, v, e), term(cb, v, e)), "", ("factor", F(1), cnum(cb), v, e), "factor"))
    if rnd.random() < 0.2:
        out.append(("DF0", ("add", term(C(0), v, e), term(cb, v, e)), "", ("factor", F(0), cnum(cb), v, e), "factor"))   # zero coefficient
    w = rnd.choice([x for x in "xyz" if x != v])
    out.append(("DF0", ("add", term(None, v, None), term(None, w, None)), "", None, "reject"))          # x + y: nothing in common
    out.append(("DF0", ("add", C(6), C(4)), "", None, "reject"))                                        # pure constants unless enabled
    out.append(("DF1", ("add", C(6), C(4)), "", None, "accept"))
    # distribute  a(b + c)
    out.append(("DM0", ("mul", a, ("add", b, c_)), "", ("distribute", a, b, c_), "distribute"))
    out.append(("DM0", ("mul", ("add", b, c_), a), "", ("distribute", a, b, c_), "distribute"))
    out.append(("DM0", ("mul", a, ("sub", b, c_)), "", None, "reject"))
    # multiplicative inverse  a / b -> a * (1 / b)
    if b[0] == "neg":
        out.append(("MI0", ("div", a, b), "", ("mul", a, ("div", C(-1), b[1])), "shape"))     # documented: negative denominator
    else:
        out.append(("MI0", ("div", a, b), "", ("mul", a, ("div", C(1), b)), "shape"))
    out.append(("MI0", ("mul", a, b), "", None, "reject"))
    # restate subtraction  a - b -> a + (-b)   and back
    out.append(("RS0", ("sub", a, V("x")), "", ("negated-right", "add", a, V("x")), "restate"))
    out.append(("RS0", ("sub", a, term(C(3), "x", None)), "", ("negated-right", "add", a, term(C(3), "x", None)), "restate"))
    # ... for every kind of subtrahend (seed C08-C negated the BASE of a constant power: 4 - 2^2 -> 4 + (-2)^2)
    for sb in (b, ("pow", coef(rnd), C(2)), ("pow", C(2), V("x")), ("pow", C(-2), C(2)), ("pow", coef(rnd), coef(rnd)), ("mul", C(3), ("pow", V("x"), C(2))),
               ("div", C(6), V("x")), ("add", V("x"), C(1)), ("neg", V("y")), C(-4), ("mul", V("x"), V("y")), ("pow", V("x"), C(2))):
        out.append(("RS0", ("sub", a, sb), "", ("negated-right", "add", a, sb), "restate"))
    out.append(("RS0", ("add", a, C(-5)), "", ("negated-right", "sub", a, C(-5)), "restate"))
    out.append(("RS0", ("add", a, term(C(-2), "x", None)), "", ("negated-right", "sub", a, term(C(-2), "x", None)), "restate"))
    out.append(("RS0", ("add", a, term(C(2), "x", None)), "", None, "reject"))
    # variable multiply  x^a * x^b -> x^(a + b)
    ea, eb = rnd.choice([None, expo(rnd)]), rnd.choice([None, expo(rnd)])
    ca, cb = rnd.choice([None, coef(rnd, False)]), rnd.choice([None, coef(rnd, False)])
    out.append(("VM0", ("mul", term(ca, v, ea), term(cb, v, eb)), "", ("varmul", v, ea, eb, ca, cb), "varmul"))
    out.append(("VM0", ("mul", V(v), V(w)), "", None, "reject"))                                        # unlike variables
    # balanced move
    t_ = term(coef(rnd), "x", None)
    rhs = C(rnd.choice([3, 8, -2]))
    k = C(rnd.choice([2, 5, -7]))
    out.append(("BM0", ("eq", ("add", t_, k), rhs), "LR", ("eq", t_, ("sub", rhs, k)), "shape-root"))
    out.append(("BM0", ("eq", rhs, ("add", k, t_)), "RL", ("eq", ("sub", rhs, k), t_), "shape-root"))
    cc = coef(rnd, False)
    out.append(("BM0", ("eq", ("mul", cc, V("x")), rhs), "LL", ("eq", ("div", ("mul", cc, V("x")), cc), ("div", rhs, cc)), "shape-root"))
    # the coefficient's own side has no addition; the OTHER side is anything (a sum, a nested sum, a term): still divides both sides
    for oth in (("add", C(rnd.choice([2, 3])), V("y")), ("mul", C(3), ("add", V("y"), C(1))), ("add", ("add", V("y"), ("mul", C(4), V("z"))), C(1)),
                term(coef(rnd), "y", C(2)), ("sub", V("y"), ("add", V("z"), C(2)))):
        out.append(("BM0", ("eq", ("mul", cc, V("x")), oth), "LL", ("eq", ("div", ("mul", cc, V("x")), cc), ("div", oth, cc)), "shape-root"))
        out.append(("BM0", ("eq", oth, ("mul", cc, V("x"))), "RL", ("eq", ("div", oth, cc), ("div", ("mul", cc, V("x")), cc)), "shape-root"))
    out.append(("BM0", ("add", t_, k), "R", None, "reject"))                                            # not an equation
    # the addend anywhere in a longer sum, grouped at random, on either side
    others = [term(coef(rnd), rnd.choice("xyz"), rnd.choice([None, C(2)])) if rnd.random() < 0.6 else C(rnd.choice([1, 4, 9, -6])) for _ in range(rnd.randint(2, 5))]
    pos = rnd.randrange(len(others) + 1)
    items = [(o, False) for o in others]
    items.insert(pos, (k, True))

    def group(xs):
        """random binary grouping; returns (tree, path to the marked item or None)"""
        if len(xs) == 1:
            return xs[0][0], ("" if xs[0][1] else None)
        cut = rnd.randint(1, len(xs) - 1)
        (l, pl), (r, pr) = group(xs[:cut]), group(xs[cut:])
        return ("add", l, r), ("L" + pl if pl is not None else "R" + pr if pr is not None else None)
    side, pk = group(items)
    rest, _ = group([(o, False) for o in others])
    if rnd.random() < 0.5:
        out.append(("BM0", ("eq", side, rhs), "L" + pk, ("eq", rest, ("sub", rhs, k)), "shape-root"))
    else:
        out.append(("BM0", ("eq", rhs, side), "R" + pk, ("eq", ("sub", rhs, k), rest), "shape-root"))
    # an addend below a product, a difference or a negation is not a term of the side
    out.append(("BM0", ("eq", ("mul", C(3), ("add", V("x"), k)), rhs), "LRR", None, "reject"))
    out.append(("BM0", ("eq", ("sub", t_, ("add", V("y"), k)), rhs), "LRR", None, "reject"))
    return out


def check(kind, exp, t, path, result_root, result_path):
    """None or a detail string; result = subtree of the result root at the rewritten position"""
    node = P.sx_sub(result_root, path) if kind not in ("shape-root", "shape-parent") else (result_root if kind == "shape-root" else P.sx_sub(result_root, path[:-1]))
    if kind in ("shape", "shape-root", "shape-parent"):
        return None if ac_norm(node) == ac_norm(exp) else f"result {P.sx_text(node)} is not the documented {P.sx_text(exp)} (up to order and grouping of + and *)"
    if kind == "const":
        if node[0] != "c" or node[1][0] == "nan" or abs(F(node[1][1]) - exp[1]) > F(1, 10 ** 9) * max(1, abs(exp[1])):
            return f"result {P.sx_text(node)} is not the constant {exp[1]}"
        return None
    if kind == "factor":
        _, a, b, v, e = exp
        # (a/k + b/k) * (k x^e) for a common factor k, up to order
        n = ac_norm(node)
        if n[0] != "mul" or len(n[1]) < 2:
            return f"result {P.sx_text(node)} is not a product"
        sums = [x for x in n[1] if x[0] == "add"]
        if len(sums) != 1 or len(sums[0][1]) != 2 or any(x[0] != "c" for x in sums[0][1]):
            return f"result {P.sx_text(node)} has no (c1 + c2) factor"
        rest = [x for x in n[1] if x[0] != "add"]
        kk = F(1)
        others = []
        for x in rest:
            if x[0] == "c":
                kk *= x[1]
            else:
                others.append(x)
        want = [ac_norm(term(None, v, e))]
        if others != want:
            return f"result {P.sx_text(node)}: the extracted term is not {v}^{e}"
        got = sorted(x[1] * kk for x in sums[0][1])
        if got != sorted([a, b]):
            return f"result {P.sx_text(node)}: coefficients {got} do not recombine to {sorted([a, b])}"
        return None
    if kind == "distribute":
        _, a, b, c_ = exp
        return None if ac_norm(node) == ac_norm(("add", ("mul", a, b), ("mul", a, c_))) else f"result {P.sx_text(node)} is not a*b + a*c"
    if kind == "restate":
        _, op, a, r = exp
        if node[0] != op or ac_norm(node[1]) != ac_norm(a):
            return f"result {P.sx_text(node)} is not '{op}' with the left operand kept"
        bad, _ = P.compare_values(("neg", r), node[2], P.assignments(__import__("random").Random(1), P.sx_vars(r), 5), mode="refines")
        return None if not bad else f"right operand {P.sx_text(node[2])} is not the negation of {P.sx_text(r)}"
    if kind == "varmul":
        _, v, ea, eb, ca, cb = exp
        ea = ea or C(1)
        eb = eb or C(1)
        power = ("pow", V(v), ("add", ea, eb))
        want = power
        if ca is not None and cb is not None:
            want = ("mul", ("mul", ca, cb), power)
        elif ca is not None or cb is not None:
            want = ("mul", ca or cb, power)
        return None if ac_norm(node) == ac_norm(want) else f"result {P.sx_text(node)} is not {P.sx_text(want)}"
    return None


def run(ctx):
    res = ctx.res
    rnd = ctx.rnd
    res.rule = ("one random instantiation per round of every documented form (swap a+b / a*b, regroup, fold c1 op c2, factor a x^n + b x^n, distribute a(b+c), a/b, "
                "a-b and back, x^a * x^b, balanced add / multiply) and of the documented non-applicable forms, coefficients from ints / decimals / negatives, exponents "
                "incl. 0, negative, 1/2, absent; each embedded in a random surrounding context; distinct = distinct (rule, tree); non-trivial = accepted forms")
    res.suites = ["rules (can_apply_to / apply_to vs extracted model on the schema instances)",
                  "oracle: an independent instantiation of the documented result, compared up to order and grouping of + and * and up to the common factor pulled out"]
    rules = {n + o: r for n, o, r in RS.rule_table()}
    cases = []
    for _ in range(ctx.n(400, 6000)):
        for code, t, path, exp, kind in schemas(rnd):
            if code != "BM0" and rnd.random() < 0.6:
                # embed: the schema node moves down by the context path
                depth = rnd.randint(1, 2)
                for _ in range(depth):
                    k = rnd.choice(["sub", "div", "pow", "neg", "sgn", "eq"])
                    if code in ("AS0",) and k in ("add", "mul"):
                        continue
                    if k in P.UN:
                        t, path = (k, t), "R" + path
                    elif rnd.random() < 0.5:
                        t, path = (k, t, operand(rnd)), "L" + path
                    else:
                        t, path = (k, operand(rnd), t), "R" + path
            cases.append((code, P.normalize(t), path, exp, kind))
    lines = [f"APPLY {c[:2]} {c[2:]} [{p}] {P.sx_text(t)}" for c, t, p, e, k in cases]
    model = common.drive(lines) if ctx.driver_ok else [None] * len(cases)
    for (code, t, path, exp, kind), m in zip(cases, model):
        res.evaluations += 1
        rule = rules[code]
        base = P.build(t)
        node = P.node_at(base, path)
        inp = dict(rule=code, tree=P.sx_text(t), node=path, form=kind)
        parent_kind = P.sx_sub(t, path[:-1])[0] if path else "none"
        zero_coef = kind == "factor" and exp[1] == 0
        try:
            can = bool(rule.can_apply_to(node))
        except Exception as e:
            res.failures.append(dict(**{"class": "can-apply-raises"}, input=inp, detail=repr(e)))
            continue
        if m is not None and (m != "0") != can:
            res.disagreements.append(dict(suite="rules.can_apply", input=inp, impl=can, model=m[:160]))
        if kind == "reject":
            if can:
                res.failures.append(dict(**{"class": "documented-non-applicable-accepted"}, input=inp, detail="the rule reports applicable on a form documented as not applicable"))
            continue
        res.nontrivial.add((code, P.sx_text(t)))
        res.count(code)
        if not can:
            res.failures.append(dict(**{"class": "documented-form-rejected"}, rule=code, form=kind, parent_kind=parent_kind, zero_coefficient=zero_coef, input=inp,
                                     detail=f"the rule does not accept an instance of its documented form (parent: {parent_kind})"))
            continue
        try:
            ch = rule.apply_to(node.clone_from_root())
            root = ch.result.get_root()
            after = P.ser(root)
        except Exception as e:
            res.failures.append(dict(**{"class": "apply-raises"}, input=inp, detail=repr(e)[:200]))
            continue
        if m is not None and m.startswith("1 ") and not m.startswith("1 EXC"):
            _, mp, msx = m.split(" ", 2)
            if not P.sx_same(after, P.sx_parse(msx)):
                res.disagreements.append(dict(suite="rules.apply", input=inp, impl=P.sx_text(after), model=m[:300]))
        if kind != "accept":
            bad = check(kind, exp, t, path, after, P.path_of(ch.result))
            if bad:
                res.failures.append(dict(**{"class": "undocumented-shape"}, rule=code, form=kind, input=inp, after=P.sx_text(after), detail=bad))
        if len(res.samples) < 10 and kind not in ("accept",) and res.dist.get(code, 0) == 1:
            res.sample(dict(rule=code, before=str(base), node=str(node), after=str(root)))


def replay(payload):
    from suites.c01 import RS_replay
    RS_replay(payload)
