"""C13 — cloning yields an identical, independent tree and locates the cloned node."""
import common
import pyside as P
import shapes as SH


def describe(n):
    """full structural description of an implementation tree incl. ids, payloads and operand sides"""
    if n is None:
        return None
    return (type(n).__name__, n.id, repr(getattr(n, "value", None)), getattr(n, "identifier", None), getattr(n, "child_on_left", None),
            describe(n.left), describe(n.right))


def identities(n, acc=None):
    acc = set() if acc is None else acc
    if n is not None:
        acc.add(id(n))
        identities(n.left, acc)
        identities(n.right, acc)
    return acc


def nodes(n, acc=None):
    acc = [] if acc is None else acc
    if n is not None:
        nodes(n.left, acc)
        acc.append(n)
        nodes(n.right, acc)
    return acc


def links_ok(n, par=None):
    if n is None:
        return True
    return n.parent is par and links_ok(n.left, n) and links_ok(n.right, n)


def build_any(rnd, d):
    """constructor-built expression trees incl. one-operand nodes with the operand on EITHER side"""
    from mathy_core import expressions as E

    if d == 0 or rnd.random() < 0.25:
        return E.ConstantExpression(rnd.choice([1, 2, 5, 0.5, -3])) if rnd.random() < 0.5 else E.VariableExpression(rnd.choice("xyz"))
    k = rnd.choice(["add", "sub", "mul", "div", "pow", "neg", "sgn", "fact", "neg", "eq", "abs"])
    if k in ("neg", "sgn", "fact", "abs"):
        cls = {"neg": E.NegateExpression, "sgn": E.SgnExpression, "fact": E.FactorialExpression, "abs": E.AbsExpression}[k]
        child = E.ConstantExpression(rnd.choice([0, 3, 5])) if k == "fact" else build_any(rnd, d - 1)
        return cls(child, child_on_left=rnd.random() < 0.4)
    l = build_any(rnd, d - 1)
    # a subtree beside its own clone: two nodes then carry the same id (clone copies ids), as after distributing a factor
    r = l.clone() if rnd.random() < 0.2 else build_any(rnd, d - 1)
    return P.classes()[k](l, r)


def pow_free(n):
    return n is None or (type(n).__name__ != "PowerExpression" and pow_free(n.left) and pow_free(n.right))


def try_eval(n):
    if not hasattr(n, "evaluate") or not pow_free(n):   # exact integer towers (5^5^5^5) do not terminate in practice
        return ("n/a", "")
    try:
        return ("OK", repr(n.evaluate({"x": 2, "y": 3, "z": 5})))
    except Exception as e:
        return ("EXC", type(e).__name__)


def try_str(n):
    if not hasattr(n, "evaluate"):
        return ("n/a", "")
    try:
        return ("OK", str(n))
    except Exception as e:
        return ("EXC", type(e).__name__)


def mutable_attrs(n):
    """the container-valued attributes of a node object, by value"""
    return sorted((k, repr(v)) for k, v in vars(n).items() if isinstance(v, (list, dict, set)))


def check_tree(res, rnd, root, inp):
    d0 = describe(root)
    ids0 = identities(root)
    ev0, st0 = try_eval(root), try_str(root)
    try:
        c = root.clone()
    except Exception as e:
        res.failures.append(dict(**{"class": "clone-raises"}, input=inp, detail=repr(e)))
        return
    if describe(c) != d0:
        res.failures.append(dict(**{"class": "clone-differs"}, input=inp, detail=f"clone {describe(c)} != original {d0}"[:600]))
        return
    if identities(c) & ids0:
        res.failures.append(dict(**{"class": "clone-shares-nodes"}, input=inp, detail="a node object occurs in both trees"))
    if not links_ok(c) or c.parent is not None:
        res.failures.append(dict(**{"class": "clone-links"}, input=inp, detail="parent links of the clone are inconsistent"))
    if try_eval(c) != ev0 or try_str(c) != st0:
        res.failures.append(dict(**{"class": "clone-behaves-differently"}, input=inp, detail=f"evaluate/str of the clone {try_eval(c)} {try_str(c)} vs original {ev0} {st0}"))
    if describe(root) != d0:
        res.failures.append(dict(**{"class": "clone-modified-original"}, input=inp, detail="cloning changed the original"))
    # independence: change one, re-snapshot the other
    for victim, other in ((c, root), (root, c)):
        d_other = describe(other)
        ns = nodes(victim)
        n = rnd.choice(ns)
        if hasattr(n, "value") and n.value is not None:
            n.value = 99
        elif getattr(n, "identifier", None):
            n.identifier = "q"
        if n.left is not None and rnd.random() < 0.5:
            n.set_left(None)
        elif n.right is not None:
            n.set_right(None)
        n.id = "changed"
        if describe(other) != d_other:
            res.failures.append(dict(**{"class": "not-independent"}, input=inp, detail="changing one tree changed the other"))
        # mutable attributes edited IN PLACE (seed C13-D shared the `classes` list between original and copy)
        attrs_other = [mutable_attrs(m) for m in nodes(other)]
        for m in nodes(victim):
            for k, v in vars(m).items():
                if isinstance(v, list):
                    v.append("edited")
                elif isinstance(v, dict):
                    v["edited"] = 1
                elif isinstance(v, set):
                    v.add("edited")
        if [mutable_attrs(m) for m in nodes(other)] != attrs_other:
            res.failures.append(dict(**{"class": "not-independent"}, input=inp, detail="editing a list/dict/set attribute of one tree's nodes in place changed the other tree's"))


def check_from_root(res, root, inp):
    d0 = describe(root)
    for n in nodes(root):
        path = P.path_of(n)
        try:
            c = n.clone_from_root()
        except Exception as e:
            res.failures.append(dict(**{"class": "clone-from-root-raises"}, input=dict(inp, node=path), detail=repr(e)))
            continue
        croot = c.get_root()
        ok = describe(croot) == d0 and not (identities(croot) & identities(root)) and P.path_of(c) == path and describe(c) == describe(n)
        if not ok:
            res.failures.append(dict(**{"class": "clone-from-root"}, input=dict(inp, node=path),
                                     detail=f"copy is at path [{P.path_of(c)}] of a tree that {'equals' if describe(croot) == d0 else 'differs from'} the original"))
        if describe(root) != d0:
            res.failures.append(dict(**{"class": "clone-modified-original"}, input=dict(inp, node=path), detail="clone_from_root changed the original"))
            return


def check_from_root_other(res, root, inp):
    """clone_from_root(node=other): the optional argument (known finding C2)"""
    ns = nodes(root)
    if len(ns) < 2:
        return
    a, b = ns[0], ns[-1]
    import contextlib
    import io
    try:
        with contextlib.redirect_stdout(io.StringIO()):   # the implementation prints diagnostics before raising
            c = a.clone_from_root(b)
        ok = P.path_of(c) == P.path_of(b) and describe(c) == describe(b)
    except Exception as e:
        ok = False
    if not ok:
        res.failures.append(dict(**{"class": "clone-from-root-other-node"}, input=dict(inp, self_node=P.path_of(a), node_arg=P.path_of(b)),
                                 detail="a.clone_from_root(b) did not return the copy of b"))


_CLS, _IDS = {}, {}


def preorder(n, acc=None):
    acc = [] if acc is None else acc
    if n is not None:
        acc.append(n)
        preorder(n.left, acc)
        preorder(n.right, acc)
    return acc


def heap_records(objs, bare):
    """one record per object (address = position): cls id val ident col l r p cn ct, as the HEAP driver command reads and prints them"""
    pos = {id(o): i for i, o in enumerate(objs)}

    def ptr(o):
        return "-" if o is None else str(pos.get(id(o), "X"))
    out = []
    for o in objs:
        cls = _CLS.setdefault(type(o).__name__, len(_CLS) + 1)
        nid = _IDS.setdefault(o.id, len(_IDS) + 1)
        v = getattr(o, "value", None)
        ident = getattr(o, "identifier", None)
        ct = getattr(o, "cloned_target", None)
        out.append(" ".join([str(cls), str(nid), "-" if v is None else P.num_text(P.num_tuple(v)), "-" if ident is None else str(ord(ident)),
                             "1" if getattr(o, "child_on_left", False) else "0", ptr(o.left), ptr(o.right), ptr(o.parent),
                             "-" if bare else ptr(getattr(o, "cloned_node", None)),
                             "-" if bare or ct is None else "e" if ct == "" else ".".join(str(_CLS.setdefault(c, len(_CLS) + 1)) for c in ct.split("."))]))
    return out


def heap_cases(res, rnd, name, root, lines, meta):
    """clone() of the root and of an inner node, clone_from_root() of up to three nodes: the implementation's whole object graph afterwards
    (old objects first, then the copy in pre-order) must be the heap the extracted Heap.v computes from the graph before"""
    bare = not hasattr(root, "clone_from_root")
    before = preorder(root)
    if len(before) > 40 or any(isinstance(getattr(o, "identifier", None), str) and len(o.identifier) != 1 for o in before):
        return
    picks = [("clone", root)]
    inner = [o for o in before if o is not root]
    if inner:
        picks.append(("clone", rnd.choice(inner)))
    if not bare:
        picks += [("cfr", o) for o in rnd.sample(before, min(3, len(before)))]
    for op, target in picks:
        recs = heap_records(before, bare)
        if any(" X" in r for r in recs):
            return
        try:
            c = target.clone() if op == "clone" else target.clone_from_root()
        except Exception as e:
            meta.append((f"EXC {type(e).__name__}", dict(tree=name, op=op, node=before.index(target))))
            lines.append(f"HEAP {op} {before.index(target)} " + " | ".join(recs))
            continue
        top = c
        while top.parent is not None:
            top = top.parent
        after = before + preorder(top)
        arecs = heap_records(after, bare)
        ans = f"OK {[id(o) for o in after].index(id(c))} | " + " | ".join(arecs)
        lines.append(f"HEAP {op} {before.index(target)} " + " | ".join(recs))
        meta.append((ans, dict(tree=name, op=op, node=before.index(target), bare=bare)))


def blank_scratch(text):
    """drop the cloned_node / cloned_target columns (bare BinaryTreeNode objects have no such attributes)"""
    head, *recs = text.split(" | ")
    return " | ".join([head] + [" ".join(r.split(" ")[:8]) for r in recs])


def run(ctx):
    res = ctx.res
    rnd = ctx.rnd
    res.rule = ("trees: parser outputs, rule results, random constructor-built expression trees incl. one-operand nodes with the operand on the LEFT, and bare "
                "BinaryTreeNode shapes (all shapes <= 6 nodes); clone() of every tree, clone_from_root() from every node; distinct = distinct tree; non-trivial = >= 3 nodes")
    res.suites = ["heap (the whole object graph after clone() / clone_from_root(): every old and new object with class, id, payload, operand side, left/right/parent pointers, cloned_node, cloned_target vs the extracted Heap.v run on the graph before)",
                  "clone (structural description incl. class, id, payload, operand side, child sides: clone vs original)",
                  "oracle: no shared node object, consistent links, equal str/evaluate, original untouched, mutual independence under later edits, "
                  "clone_from_root returns the copy of the same node at the same path inside a complete copy"]
    from mathy_core.parser import ExpressionParser
    from mathy_core.tree import BinaryTreeNode

    trees = []
    for s in P.rule_test_inputs()[:: (4 if ctx.tier == "quick" else 1)]:
        try:
            trees.append(("parsed " + s, ExpressionParser().parse(s)))
        except Exception:
            pass
    for i in range(ctx.n(600, 8000)):
        trees.append((f"random#{i}", build_any(rnd, rnd.randint(1, 4))))
    for i in range(ctx.n(200, 3000)):
        trees.append((f"sexpr#{i}", P.build(P.rtree_any(rnd, rnd.randint(1, 4)))))
    # results of rewrites (distribution clones the factor: equal ids at different positions)
    import rulesuite as RS
    rules = RS.rule_table()
    for i in range(ctx.n(150, 2000)):
        root = P.build(P.rtree(rnd, rnd.randint(2, 3)) if rnd.random() < 0.5 else ("mul", P.rterm(rnd), ("add", P.rterm(rnd), P.rterm(rnd))))
        for _ in range(rnd.randint(1, 3)):
            cands = [(r, n) for _, _, r in rules for n in nodes(root) if r.can_apply_to(n)]
            if not cands:
                break
            r, n = rnd.choice(cands)
            try:
                root = r.apply_to(n.clone_from_root()).result.get_root()
            except Exception:
                break
        trees.append((f"rewritten#{i}", root))
    for s in SH.shapes_upto(5 if ctx.tier == "quick" else 7):
        t = SH.label(s)[0]
        trees.append(("shape " + SH.text(t), SH.build_nodes(t)[0]))
    known_c2 = 0
    lines, meta = [], []
    for name, root in trees:
        res.evaluations += 1
        inp = dict(tree=name, description=str(describe(root))[:300])
        n = len(nodes(root))
        if n >= 3:
            res.nontrivial.add(str(describe(root)))
        res.count(f"size{min(n // 4 * 4, 24)}")
        heap_cases(res, rnd, name, root, lines, meta)
        if hasattr(root, "clone_from_root"):
            check_from_root(res, root, inp)
            if res.evaluations % 25 == 0:
                check_from_root_other(res, root, inp)
        check_tree(res, rnd, root, inp)
        if n > 5:
            res.sample(dict(tree=name, nodes=n))
    model = common.drive(lines) if ctx.driver_ok else [None] * len(lines)
    for (ans, inp), m in zip(meta, model):
        res.evaluations += 1
        if m is None:
            continue
        if inp.get("bare"):
            ans, m = blank_scratch(ans), (blank_scratch(m) if m.startswith("OK") else m)
        if m.strip() != ans.strip():
            res.disagreements.append(dict(suite="heap." + inp["op"], input=inp, impl=ans[:400], model=m[:400]))


def replay(payload):
    f = payload["finding"]
    print("finding:", f.get("class"), f.get("detail"))
    print("input:", f["input"])
