"""C17 — generated problems are always valid and contain what they promise."""
import random as _random
from fractions import Fraction as F

import common
import pyside as P

POOL = "abcdfghjklmnopqrstuvwxyz"


class Draws:
    """Stand-in for the `random` module inside mathy_core.problems: every call consumes integer draws with a stated range from a
    PRNG-fed stream and logs them; shuffle = sort + Fisher-Yates, sample = draw a position and remove (coq/theories/Problems.v)."""

    def __init__(self, rnd):
        self.rnd, self.log = rnd, []

    def _d(self, lo, hi):
        if hi < lo:
            raise ValueError("empty range for randrange()")
        k = self.rnd.random()
        z = lo if k < 0.06 else hi if k < 0.12 else self.rnd.randint(lo, hi)
        if (lo, hi) == (0, 2 ** 20 - 1) and k > 0.85:
            z = 16384 * self.rnd.randrange(1, 64, 2)    # random() * 10000 has exactly 2 decimals ending in 5: "%.1f" must round the tie to even
        self.log.append(z)
        return z

    def randrange(self, n):
        return self._d(0, n - 1)

    def randint(self, a, b):
        return self._d(a, b)

    def random(self):
        return self._d(0, 2 ** 20 - 1) / 2 ** 20

    def uniform(self, a, b):
        assert (a, b) == (0, 1)
        return self._d(0, 1024) / 1024

    def shuffle(self, x):
        x.sort()
        for i in reversed(range(1, len(x))):
            j = self._d(0, i)
            x[i], x[j] = x[j], x[i]

    def sample(self, pool, k):
        if k < 0:
            raise ValueError("Sample larger than population or is negative")
        pool, out = list(pool), []
        for _ in range(k):
            out.append(pool.pop(self._d(0, len(pool) - 1)))
        return out

    def choice(self, seq):
        return seq[self._d(0, len(seq) - 1)]


def q(x):
    x = F(x)
    return f"{x.numerator}/{x.denominator}"


def pct(p):
    """the rational the model must be given so that its p*100 is exactly the float the implementation computes"""
    return F(p * 100) / 100


PROBS = [0.0, 0.25, 0.5, 0.75, 1.0, 0.33, 0.66, 0.8, 0.1]


def cases(rnd):
    """(name, kwargs for the implementation, model parameter words, promises like terms, in documented range)"""
    out = []
    b = lambda: rnd.random() < 0.5
    for _ in range(3):
        mn = rnd.randint(2, 24)
        mx = rnd.randint(mn, 25)
        e, pw = b(), b()
        out.append(("gen_combine_terms_in_place", dict(min_terms=mn, max_terms=mx, easy=e, powers=pw), ["combine", mn, mx, int(e), int(pw)], True))
    out.append(("gen_combine_terms_in_place", {}, ["combine", 16, 25, 1, 0], True))
    for _ in range(3):
        mn = rnd.randint(3, 20)
        mx = rnd.randint(mn, 22)
        bl = rnd.randint(1, 3)
        e, pw = b(), b()
        out.append(("gen_commute_haystack", dict(min_terms=mn, max_terms=mx, commute_blockers=bl, easy=e, powers=pw), ["haystack", mn, mx, bl, int(e), int(pw)], True))
    out.append(("gen_commute_haystack", {}, ["haystack", 5, 8, 1, 1, 0], True))
    for name, code in (("gen_move_around_blockers_one", "blockers1"), ("gen_move_around_blockers_two", "blockers2")):
        for _ in range(2):
            n, pp = rnd.randint(1, 8), rnd.choice(PROBS)
            out.append((name, dict(number_blockers=n, powers_probability=pp), [code, n, q(pct(pp))], True))
    for name, code, slots in (("gen_binomial_times_binomial", "binbin", 4), ("gen_binomial_times_monomial", "binmono", 3)):
        for _ in range(3):
            mn = rnd.randint(0, slots)
            mx = rnd.randint(mn, slots)
            s, pp, lp = b(), rnd.choice(PROBS), rnd.choice(PROBS)
            out.append((name, dict(min_vars=mn, max_vars=mx, simple_variables=s, powers_probability=pp, like_variables_probability=lp),
                        [code, mn, mx, int(s), q(pct(pp)), q(pct(lp))], False))
        out.append((name, {}, [code, 1, 2, 1, q(pct(0.33)), q(pct(1.0))], False))
    for _ in range(6):
        nt = rnd.choice([2, 3, 2, 3, 4]) if rnd.random() < 0.4 else rnd.randint(2, 12)
        ov = b()
        mode = rnd.choice(["R", "R", "F+", "F-", "F*", "C+-", "C+-*", "C*+"])
        op = None if mode == "R" else mode[1] if mode[0] == "F" else list(mode[1:])
        its = rnd.choice([0.3, 0.5, 0.25, 0.75, 1.0])
        if int(nt * its) != (F(its) * nt).__floor__():
            continue
        pr = [rnd.choice(PROBS) for _ in range(6)]
        noise = rnd.choice([None, None, 1, 2, 3, 5])
        out.append(("gen_simplify_multiple_terms",
                    dict(num_terms=nt, optional_var=ov, op=op, inner_terms_scaling=its, powers_probability=pr[0], optional_var_probability=pr[1], noise_probability=pr[2],
                         shuffle_probability=pr[3], share_var_probability=pr[4], grouping_noise_probability=pr[5], noise_terms=noise),
                    ["simplify", nt, int(ov), mode, q(F(its))] + [q(pct(x)) for x in pr] + ["-" if noise is None else noise],
                    # "a polynomial problem with like terms that need to be combined": guaranteed when the like-term templates are repeated
                    # (fewer templates than terms), the terms are added/subtracted and the variable is not optional (seed C17-C)
                    mode in ("F+", "F-", "C+-") and not ov and (1 if nt == 2 else max(2, int(nt * its))) < nt))
    return out


def check_problem(res, name, kw, pretty, text, complexity, like, inp):
    from mathy_core import util as U
    from mathy_core.parser import ExpressionParser

    if not isinstance(text, str) or not isinstance(complexity, int) or isinstance(complexity, bool) or complexity <= 0:
        res.failures.append(dict(**{"class": "bad-complexity"}, generator=name, input=inp, detail=f"returned ({text!r}, {complexity!r})"))
        return
    try:
        tree = ExpressionParser().parse(text)
    except Exception as e:
        res.failures.append(dict(**{"class": "unparseable-problem"}, generator=name, input=inp, detail=f"{text!r}: {type(e).__name__}: {e}"[:300]))
        return
    if like and not U.has_like_terms(tree):
        res.failures.append(dict(**{"class": "no-like-terms"}, generator=name, input=inp, detail=f"{text!r} has no like terms"))


def run(ctx):
    res, rnd = ctx.res, ctx.rnd
    from mathy_core import problems as PR

    res.rule = ("each of the 7 generators x parameter settings drawn from the documented ranges (term counts 2-25, 1-8 blockers, 0-4 variables, probabilities from "
                "{0, .1, .25, .33, .5, .66, .75, .8, 1}, operator None / fixed / list, optional variables, noise overrides) x both number modes; draws: a PRNG-fed stream "
                "with 12% of draws forced to a range end (so -0.0, 0 and maximal values occur); plus real random.seed(s) runs; distinct = distinct (generator, parameters, "
                "draw stream); non-trivial = problems with >= 4 terms")
    res.suites = ["problems (text and complexity of the implementation fed a logged draw stream vs the extracted Problems.v on the same stream; get_rand_vars, "
                  "split_in_two_random, rand_number likewise)",
                  "oracle on every generated problem, incl. real seeds: parse(text) succeeds, complexity is a positive int, has_like_terms(parse(text)) for the four "
                  "generators that promise a like pair; get_rand_vars distinct / right count / disjoint from the exclusions, raising exactly when infeasible; "
                  "split_in_two_random sums to its input, lower <= higher"]
    real_random = PR.random
    lines, meta = [], []
    try:
        for rnd_i in range(ctx.n(60, 900)):
            for pretty in (True, False):
                PR.use_pretty_numbers(pretty)
                for name, kw, words, like in cases(rnd):
                    src = Draws(rnd)
                    PR.random = src
                    inp = dict(generator=name, kwargs={k: v for k, v in kw.items()}, pretty=pretty)
                    res.evaluations += 1
                    try:
                        text, cx = getattr(PR, name)(**kw)
                        ans = f"OK {len(src.log)} {cx} " + " ".join(str(ord(c)) for c in text)
                        inp["draws"] = list(src.log)
                        check_problem(res, name, kw, pretty, text, cx, like, inp)
                        if text.count(" ") >= 6:
                            res.nontrivial.add((name, str(kw), pretty, tuple(src.log)))
                        res.count(name)
                    except ValueError as e:
                        ans = "RAISE"
                        inp["draws"] = list(src.log)
                        res.count(name + ":ValueError")
                        res.failures.append(dict(**{"class": "generator-raises"}, generator=name, input=inp, detail=f"ValueError: {e} for parameters inside the documented range"))
                    except Exception as e:
                        ans = "EXC " + type(e).__name__
                        inp["draws"] = list(src.log)
                        res.failures.append(dict(**{"class": "generator-raises"}, generator=name, input=inp, detail=f"{type(e).__name__}: {e}"[:200]))
                    lines.append("PROB " + words[0] + " " + str(int(pretty)) + " " + " ".join(str(w) for w in words[1:]) + " | " + " ".join(map(str, src.log)) + " 0 0 0")
                    meta.append((ans, inp))
                # helpers
                n, common_ = rnd.randint(0, 26), rnd.random() < 0.25
                pool = "xyz" if common_ else POOL
                excl = rnd.sample(pool, rnd.randint(0, min(3, len(pool))))
                src = Draws(rnd)
                PR.random = src
                res.evaluations += 1
                feasible = n <= 25 and n <= len([v for v in pool if v not in excl])
                inp = dict(generator="get_rand_vars", kwargs=dict(num_vars=n, exclude_vars=excl, common_variables=common_))
                try:
                    vs = PR.get_rand_vars(n, list(excl), common_)
                    ans = f"OK {len(src.log)} " + " ".join(str(ord(v)) for v in vs)
                    if len(vs) != n or len(set(vs)) != n or set(vs) & set(excl) or not set(vs) <= set(pool) or not feasible:
                        res.failures.append(dict(**{"class": "rand-vars"}, input=dict(inp, draws=list(src.log)), detail=f"returned {vs}"))
                except ValueError:
                    ans = "RAISE"
                    if feasible:
                        res.failures.append(dict(**{"class": "rand-vars"}, input=dict(inp, draws=list(src.log)), detail="raises although enough variables are available"))
                lines.append(f"PROB rvars {n} {int(common_)} " + (",".join(str(pool.index(v)) for v in excl) or "-") + " | " + " ".join(map(str, src.log)) + " 0")
                meta.append((ans.strip(), dict(inp, draws=list(src.log))))
                v = rnd.choice([0, 1, 2, 3, 5, 8, 13, 24, rnd.randint(0, 1000)])
                src = Draws(rnd)
                PR.random = src
                res.evaluations += 1
                lo, hi = PR.split_in_two_random(v)
                if lo + hi != v or lo > hi:
                    res.failures.append(dict(**{"class": "split"}, input=dict(generator="split_in_two_random", value=v, draws=list(src.log)), detail=f"returned {(lo, hi)}"))
                lines.append(f"PROB split {v} | " + " ".join(map(str, src.log)))
                meta.append((f"OK 1 {lo} {hi}", dict(generator="split_in_two_random", value=v, draws=list(src.log))))
                for _ in range(4):
                    src = Draws(rnd)
                    PR.random = src
                    res.evaluations += 1
                    x = PR.rand_number()
                    lines.append(f"PROB rnum {int(pretty)} | " + " ".join(map(str, src.log)))
                    meta.append((f"OK {len(src.log)} " + " ".join(str(ord(c)) for c in f"{x}"), dict(generator="rand_number", pretty=pretty, draws=list(src.log))))
    finally:
        PR.random = real_random
        PR.use_pretty_numbers(True)
    model = common.drive(lines) if ctx.driver_ok else [None] * len(lines)
    for (ans, inp), m, line in zip(meta, model, lines):
        if m is not None and m.strip() != ans.strip():
            res.disagreements.append(dict(suite="problems." + inp["generator"], input=inp, impl=ans[:300], model=m[:300], line=line[:300]))
    # --- real seeds: the oracle only
    try:
        for s in range(ctx.n(150, 3000)):
            for pretty in (True, False):
                PR.use_pretty_numbers(pretty)
                for name, kw, words, like in cases(rnd):
                    _random.seed(s * 7919 + 17)
                    res.evaluations += 1
                    inp = dict(generator=name, kwargs={k: v for k, v in kw.items()}, pretty=pretty, seed=s * 7919 + 17)
                    try:
                        text, cx = getattr(PR, name)(**kw)
                    except Exception as e:
                        res.failures.append(dict(**{"class": "generator-raises"}, generator=name, input=inp, detail=f"{type(e).__name__}: {e}"[:200]))
                        continue
                    check_problem(res, name, kw, pretty, text, cx, like, inp)
                    if s < 3 and pretty and len(res.samples) < 12:
                        res.sample(dict(generator=name, text=text, complexity=cx))
    finally:
        PR.use_pretty_numbers(True)


def replay(payload):
    from mathy_core import problems as PR
    f = payload["finding"]
    print("finding:", f.get("class"), f.get("detail"))
    inp = f["input"]
    print("input  :", {k: v for k, v in inp.items() if k != "draws"})
    name = inp["generator"]
    if "seed" in inp:
        PR.use_pretty_numbers(inp.get("pretty", True))
        _random.seed(inp["seed"])
        try:
            print(f"random.seed({inp['seed']}); {name}(**{inp['kwargs']}) ->", getattr(PR, name)(**inp["kwargs"]))
        except Exception as e:
            print("raises", repr(e))
    elif "draws" in inp and "kwargs" in inp and hasattr(PR, name):
        class Fixed(Draws):
            def __init__(self, ds):
                self.ds, self.log = list(ds), []

            def _d(self, lo, hi):
                if hi < lo:
                    raise ValueError("empty range")
                z = self.ds.pop(0)
                self.log.append(z)
                return z
        PR.use_pretty_numbers(inp.get("pretty", True))
        PR.random = Fixed(inp["draws"])
        try:
            kw = dict(inp["kwargs"])
            if name == "get_rand_vars":
                print(PR.get_rand_vars(kw["num_vars"], kw["exclude_vars"], kw["common_variables"]))
            else:
                print(f"{name}(**{kw}) on the logged draws ->", getattr(PR, name)(**kw))
        except Exception as e:
            print("raises", repr(e))
        finally:
            PR.random = _random
