"""C03 — text is read according to the documented grammar and order of operations."""
from fractions import Fraction as F

import common
import gens
import pyside as P
import refparser as RP

PARSE_EXC = ("InvalidExpression", "OutOfTokens", "InvalidSyntax", "UnexpectedBehavior", "TrailingTokens")


def impl_parse(s, parser=None, serialize=True):
    from mathy_core.parser import ExpressionParser, ParserException

    try:
        t = (parser or ExpressionParser()).parse(s)
    except ParserException as e:
        return ("EXC", type(e).__name__)
    except ValueError:
        return ("EXC", "ValueError")
    except RecursionError:
        return ("EXC", "RecursionError")
    except BaseException as e:
        return ("EXC", "INTERNAL-" + type(e).__name__)
    if not serialize:
        return ("OK", None)
    try:
        return ("OK", P.ser(t))
    except P.AuditError as e:
        return ("AUDIT", str(e))


def model_parse(strings):
    out = common.drive([f"PARSE {gens.cps(s)}" for s in strings])
    res = []
    for o in out:
        if o.startswith("OK "):
            res.append(("OK", P.sx_parse(o[3:])))
        else:
            res.append(("EXC", o[4:]))
    return res


def same_outcome(py, m):
    if py[0] != m[0]:
        return False
    if py[0] == "OK":
        return P.sx_same(py[1], m[1])
    return py[1] == m[1]


def leaf_match(tree, s):
    """operands of the tree, left to right, are exactly the operand tokens of the text (a '-' before a literal may be absorbed)."""
    toks = RP.operand_tokens(s)
    lv = RP.leaves(tree)
    if len(toks) != len(lv):
        return False
    for (k, v), (lk, lvv) in zip(toks, lv):
        if k != lk:
            return False
        if k == "var":
            if v != lvv:
                return False
        else:
            try:
                n = RP.number(v)[1]
            except RP.Reject:
                return False
            if lvv[0] != n[0] or abs(lvv[1]) != abs(n[1]):
                if not (lvv[0] == "f" and n[0] == "f" and abs(abs(lvv[1]) - abs(n[1])) <= F(1, 10 ** 12) * max(1, abs(n[1]))):
                    return False
    return True


def oracle(ctx, s, py):
    """independent check of C03 on the implementation's outcome for s. Returns None or finding dict."""
    try:
        doc = RP.ref_parse(s)
    except RP.Reject as e:
        doc = None
    except RecursionError:
        return None
    accepted = py[0] == "OK"
    if py[0] == "AUDIT":
        return dict(**{"class": "malformed-tree"}, detail=py[1])
    if (doc is not None) != accepted:
        return dict(**{"class": "language"}, detail=f"documented grammar {'derives' if doc is not None else 'rejects'} the string, parser {'accepts' if accepted else 'raises ' + py[1]}")
    if doc is None:
        return None
    tree = py[1]
    if not leaf_match(tree, s):
        return dict(**{"class": "operands"}, detail=f"operands of the tree {RP.leaves(tree)} are not the operand tokens of the text in order", tree=P.sx_text(tree))
    if P.sx_same(tree, doc):
        return None
    # same tree up to nesting? decide by exact values
    vs = P.sx_vars(doc) | P.sx_vars(tree)
    envs = P.assignments(ctx.rnd, vs, 8)
    bad, _ = P.compare_values(doc, tree, envs, mode="agree")
    bad2, _ = P.compare_values(tree, doc, envs, mode="agree")
    bad = bad or bad2
    right = None
    try:
        right = RP.ref_parse(s, right_nested=True)
    except RP.Reject:
        pass
    cls = "mult-chain-right-nested" if right is not None and P.sx_same(tree, right) else "grammar-deviation"
    if bad:
        env, a, b = bad
        return dict(**{"class": cls}, tree=P.sx_text(tree), documented=P.sx_text(doc),
                    detail=dict(env={chr(k): str(v) for k, v in env.items()}, documented_value=str(a), parsed_value=str(b)))
    if cls == "grammar-deviation":
        return dict(**{"class": "grammar-deviation-structure"}, tree=P.sx_text(tree), documented=P.sx_text(doc), detail="tree differs from the documented derivation (no value difference found)")
    return None   # right-nested chain of * only: re-associated but equal in value (commutative-associative)


CORPUS = ["xy^2", "xyz^2", "2xy^3", "8/4/2", "8/4*2", "2*3/4", "a/b/c", "a*b/c*d", "-2^2", "-x^2", "5!", "-5!", "2x^2", "(x)(y)", "sgn(x)y", "x^2^3",
          "2^3^4", "1 - 2 - 3", "1 - (2 - 3)", "4x + 2 = 8", "a = b = c", "2 3", "x!", "", "()", "(", "3 +", "* 3", "1.2.3", ".", "7.", ".5x", "x^-2",
          "x^-y", "2--3", "--3", "x y z", "2(x+1)^2", "(a+b)(c+d)", "sgn(-3)", "sgn()", "sgn", "sgnx", "1/0", "x-7^(1+1)", "4y^3z", "–3", "[x+1][y]"]


def strings(ctx, n):
    rnd = ctx.rnd
    ss = CORPUS + gens.strings(rnd, n)
    # integer literals beyond 2^53 (not representable as doubles) and long decimals: the reading must keep every digit
    ss += ["9007199254740993", "9007199254740993 - 9007199254740992", "18446744073709551617x", "123456789012345678901234567890", "2^9007199254740993"]
    for _ in range(max(6, n // 40)):
        big = str(rnd.choice([2 ** 53, 2 ** 63, 2 ** 64, 10 ** rnd.randint(16, 30)]) + rnd.randint(1, 999))
        ss.append(rnd.choice([big, big + "x", big + " + 1", "x^" + big, "-" + big, big + " - " + str(int(big) - 1), "(" + big + ")y^2"]))
    # product / quotient chains (where the documented left-to-right order matters)
    for _ in range(max(10, n // 15)):
        k = rnd.randint(3, 5)
        ops = [rnd.choice(["*", "/", "/"]) for _ in range(k - 1)]
        atoms = [rnd.choice(["x", "y", "2", "3", "4", "8", "2x", "(x+1)", "x^2", "5"]) for _ in range(k)]
        s = atoms[0]
        for o, a in zip(ops, atoms[1:]):
            s += f" {o} {a}"
        ss.append(s)
    return list(dict.fromkeys(ss))


def run(ctx):
    res = ctx.res
    res.rule = ("strings: corpus of grammar corner cases, grammar-directed valid expressions (55%), single-edit mutants, token soups, unsupported "
                "characters, and * / chains; distinct = distinct string; non-trivial = accepted with >= 3 nodes, or rejected after >= 2 tokens")
    res.suites = ["parse (ExpressionParser().parse vs extracted Parser.parse: outcome kind and tree)",
                  "oracle: independent reference parser of the documented grammar (acceptance, operands in order, exact values at 8 assignments)"]
    ss = strings(ctx, ctx.n(5000, 80000))
    model = model_parse(ss) if ctx.driver_ok else [None] * len(ss)
    from mathy_core.parser import ExpressionParser
    shared = ExpressionParser()
    for s, m in zip(ss, model):
        res.evaluations += 1
        py = impl_parse(s)
        # the same text on a long-lived parser, twice: must read the text the same way every time
        for _ in range(2):
            again = impl_parse(s, shared)
            if not same_outcome(again, py):
                res.failures.append(dict(**{"class": "reading-depends-on-history"}, input=dict(text=s),
                                         detail=f"a used parser returns {again[0]} {P.sx_text(again[1]) if again[0] == 'OK' else again[1]}, a fresh one {py[0]} {P.sx_text(py[1]) if py[0] == 'OK' else py[1]}"))
                break
        if m is not None and not same_outcome(py, m):
            res.disagreements.append(dict(suite="parse", input=dict(text=s), impl=(py[0], P.sx_text(py[1]) if py[0] == "OK" else py[1]),
                                          model=(m[0], P.sx_text(m[1]) if m[0] == "OK" else m[1])))
        res.count("ok" if py[0] == "OK" else py[1])
        if (py[0] == "OK" and P.sx_size(py[1]) >= 3) or (py[0] == "EXC" and len(s.strip()) >= 2):
            res.nontrivial.add(s)
        bad = oracle(ctx, s, py)
        if bad:
            bad["input"] = dict(text=s)
            res.failures.append(bad)
        if py[0] == "OK" and len(s) > 6:
            res.sample(dict(text=s, tree=P.sx_text(py[1])))


def replay(payload):
    f = payload["finding"]
    s = f["input"]["text"]
    py = impl_parse(s)
    print("text:", repr(s))
    print("implementation:", py[0], P.sx_text(py[1]) if py[0] == "OK" else py[1])
    try:
        print("documented grammar:", P.sx_text(RP.ref_parse(s)))
    except RP.Reject as e:
        print("documented grammar rejects:", e)
    m = model_parse([s])[0]
    print("model:", m[0], P.sx_text(m[1]) if m[0] == "OK" else m[1])
    print("finding:", f.get("class"), f.get("detail"))
