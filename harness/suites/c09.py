"""C09 — any sequence of rewrites keeps the expression equivalent to the original."""
import common
import gens
import pyside as P
import rulesuite as RS
from suites.c03 import impl_parse

STARTS = ["4x + 2x", "2x^2 * 3x", "4(x + 2) + 3x", "(x + 1)(x - 2)", "2x + 3 = 7", "x^2 * x^3 + 4x - 2x", "7 - 3x - (2 - x)", "12 / -y + 2y", "4 * (3 + 2x) - 8",
          "2a + 3a + 4b - b = 12", "(2 + 3) * x - 5x", "x / 3 + 2x / 3", "5 - -x + 3x^2 * x", "0.5x + 1.5x", "3x + 2y + 4x + y", "2 * 3 * x * x^2", "x^0 + 2x",
          "-(2 + 3)x + 8", "4x = 8", "x + 2 + 3 = 7", "6 + 4", "2^3 * x + 2^2", "(4x + 2) / 2 - x", "14x + 7x^2", "y * y^2 * y^3"]


def start_trees(ctx, n):
    rnd = ctx.rnd
    out = []
    for s in STARTS:
        r = impl_parse(s)
        if r[0] == "OK":
            out.append(r[1])
    while len(out) < n:
        k = rnd.random()
        if k < 0.5:
            r = impl_parse(gens.valid_expr(rnd, rnd.randint(2, 3), eq=True))
            if r[0] == "OK" and 3 <= P.sx_size(r[1]) <= 25:
                out.append(r[1])
        elif k < 0.58:
            # equations with a parenthesised sum or difference UNDER a subtraction / a product on one side (addends that are not top-level)
            a, b, c, d = (P.term(rnd) for _ in range(4))
            side = rnd.choice([("sub", a, ("add", b, c)), ("sub", a, ("sub", b, c)), ("add", a, ("sub", b, ("add", c, d))), ("sub", ("add", a, b), ("add", c, d)),
                               ("mul", P.C(rnd.choice([2, 3, -4])), ("add", b, c))])
            other = rnd.choice([P.C(rnd.choice([1, 2, 7, -3])), d, ("add", d, P.C(5))])
            out.append(("eq", side, other) if rnd.random() < 0.6 else ("eq", other, side))
        elif k < 0.8:
            t = P.like_pair(rnd)
            out.append(("add", t, P.like_pair(rnd)) if rnd.random() < 0.5 else t)
        else:
            t = P.rtree(rnd, rnd.randint(2, 3))
            out.append(("eq", t, P.rtree(rnd, 1)) if rnd.random() < 0.4 else t)
    return [P.normalize(t) for t in out[:n]]


def run(ctx):
    res = ctx.res
    rnd = ctx.rnd
    steps = 10 if ctx.tier == "quick" else 30
    res.rule = (f"walks of up to {steps} steps from parsed and generated start expressions (40% equations): at every step a uniformly random applicable "
                "(rule, option, node) is applied to a copy cloned from the root, as search agents do; distinct = distinct (start, step sequence); non-trivial = walks with >= 3 steps")
    res.suites = ["walks (every step's result tree and result path vs extracted Rules.apply)",
                  "oracle after EVERY step: heap audit; str(root) re-parses to an equivalent expression; exact value / solution set equal to the START expression; all earlier "
                  "roots bit-identical at the end of the walk"]
    rules = RS.rule_table()
    walks = []
    for t in start_trees(ctx, ctx.n(700, 6000)):
        root = P.build(t)
        walks.append(dict(start=t, cur=t, root=root, history=[(root, P.snapshot(root))], trace=[], alive=True))
    for step in range(steps):
        batch = []
        for w in walks:
            if not w["alive"]:
                continue
            nodes = P.inorder_nodes(w["root"])
            cands = []
            for name, opt, rule in rules:
                for n in nodes:
                    try:
                        if rule.can_apply_to(n):
                            cands.append((name, opt, rule, n))
                    except Exception as e:
                        res.failures.append(dict(**{"class": "can-apply-raises"}, input=dict(start=P.sx_text(w["start"]), trace=w["trace"]), detail=repr(e)))
            if not cands or P.sx_size(w["cur"]) > 60:
                w["alive"] = False
                continue
            name, opt, rule, n = rnd.choice(cands)
            batch.append((w, name, opt, rule, n, P.path_of(n)))
        if not batch:
            break
        model = common.drive([f"APPLY {name} {opt} [{path}] {P.sx_text(w['cur'])}" for w, name, opt, rule, n, path in batch]) if ctx.driver_ok else [None] * len(batch)
        for (w, name, opt, rule, n, path), m in zip(batch, model):
            res.evaluations += 1
            inp = dict(start=P.sx_text(w["start"]), trace=w["trace"] + [[name + opt, path]], before=P.sx_text(w["cur"]))
            try:
                work = n.clone_from_root()
                ch = rule.apply_to(work)
                root = ch.result.get_root()
                after = P.ser(root)
            except P.AuditError as e:
                res.failures.append(dict(**{"class": "audit"}, rule=name + opt, input=inp, detail=str(e)))
                w["alive"] = False
                continue
            except Exception as e:
                res.failures.append(dict(**{"class": "apply-raises"}, rule=name + opt, input=inp, detail=f"{type(e).__name__}: {e}"[:200]))
                w["alive"] = False
                continue
            w["trace"].append([name + opt, path])
            if m is not None:
                if m.startswith("1 EXC INEXACT"):
                    res.count("inexact-fold")
                elif m.startswith("1 ") and not m.startswith("1 EXC"):
                    _, mp, msx = m.split(" ", 2)
                    if mp != f"[{P.path_of(ch.result)}]" or not P.sx_same(after, P.sx_parse(msx)):
                        res.disagreements.append(dict(suite="walks", input=inp, impl=P.sx_text(after), model=m[:300]))
                else:
                    res.disagreements.append(dict(suite="walks", input=inp, impl=P.sx_text(after), model=m[:300]))
            # equivalence with the START expression
            bad = RS.check_values(rnd, w["start"], after, 6)
            if bad:
                res.failures.append(dict(**{"class": "walk-" + bad[0]}, rule=name + opt, input=inp, after=P.sx_text(after), detail=bad[1]))
                w["alive"] = False
            # prints and re-parses to an equivalent expression
            try:
                text = str(root)
            except Exception as e:
                text = None
                res.failures.append(dict(**{"class": "str-raises"}, input=inp, detail=repr(e)))
            if text is not None and "nan" not in text and "inf" not in text:
                rp = impl_parse(text)
                if rp[0] != "OK":
                    res.failures.append(dict(**{"class": "walk-reparse-fails"}, rule=name + opt, input=inp, detail=f"{text!r} raises {rp[1]}"))
                else:
                    bad = RS.check_values(rnd, after, rp[1], 4)
                    if bad:
                        res.failures.append(dict(**{"class": "walk-roundtrip-" + bad[0]}, rule=name + opt, input=inp, detail=dict(text=text, **(bad[1] if isinstance(bad[1], dict) else {}))))
            w["cur"], w["root"] = after, root
            w["history"].append((root, P.snapshot(root)))
    for w in walks:
        if len(w["trace"]) >= 3:
            res.nontrivial.add((P.sx_text(w["start"]), str(w["trace"])))
        res.count(f"walk-length-{min(len(w['trace']), steps)}")
        for i, (root, snap) in enumerate(w["history"][:-1]):
            if P.snapshot(root) != snap:
                res.failures.append(dict(**{"class": "earlier-state-altered"}, input=dict(start=P.sx_text(w["start"]), trace=w["trace"], state=i),
                                         detail="a root reached earlier in the walk was modified by a later step"))
                break
        if len(w["trace"]) >= 4:
            res.sample(dict(start=str(w["history"][0][0]), steps=w["trace"][:6], end=str(w["root"])))


def replay(payload):
    f = payload["finding"]
    print("finding:", f.get("class"), f.get("detail"))
    inp = f["input"]
    print("start :", inp.get("start"))
    print("trace :", inp.get("trace"))
    if "before" in inp and inp.get("trace"):
        rules = {n + o: r for n, o, r in RS.rule_table()}
        code, path = inp["trace"][-1]
        base = P.build(P.sx_parse(inp["before"]))
        node = P.node_at(base, path)
        print("before:", base, " node:", node, " rule:", code)
        try:
            print("after :", rules[code].apply_to(node.clone_from_root()).result.get_root())
        except Exception as e:
            print("apply_to raised", repr(e))
