"""C06 — a rule that reports it applies can be applied; the applicability check is pure; node search."""
import pyside as P
import rulesuite as RS
from suites.c01 import RS_replay

WANT = {"raises", "purity", "find"}


def run(ctx):
    res = ctx.res
    res.rule = ("trees as in C01 plus equation-rooted trees and constant-pair templates (folds of huge / negative / fractional powers, division by zero, "
                "equal and unequal constants across '='); every node x 11 rule configurations; distinct non-trivial = distinct (rule, tree, node) applied")
    res.suites = ["rules (can_apply_to/apply_to vs extracted model)", "find (find_nodes/find_node/r_index vs in-order scan; vs extracted Rules.find_nodes)",
                  "oracle: snapshot of all node identities/pointers/payloads before and after can_apply_to (called twice); apply_to on a clone_from_root copy must not raise"]
    ts = RS.standard_trees(ctx, ctx.n(500, 9000), eq_share=0.25)
    rnd = ctx.rnd
    ts += [P.const_pair(rnd) for _ in range(ctx.n(150, 2000))]
    ts += [("eq", P.const_pair(rnd), P.const_pair(rnd)) for _ in range(ctx.n(40, 500))]
    eng = RS.Engine(ctx)
    eng.run_trees(ts, WANT)
    eng.finish()


def replay(payload):
    RS_replay(payload)
