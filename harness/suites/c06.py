"""C06 — a rule that reports it applies can be applied; the applicability check is pure; node search."""
import pyside as P
import rulesuite as RS
from suites.c01 import RS_replay

WANT = {"raises", "purity", "find"}


def run(ctx):
    res = ctx.res
    res.rule = ("trees as in C01 plus equation-rooted trees and constant-pair templates (folds of huge / negative / fractional powers, division by zero, "
                "equal and unequal constants across '='); every node x 11 rule configurations; distinct non-trivial = distinct (rule, tree, node) applied")
    res.suites = ["rules (can_apply_to/apply_to vs extracted model)", "find (find_nodes/find_node/r_index vs in-order scan; vs extracted Rules.find_nodes)",
                  "oracle: snapshot of all node identities/pointers/payloads before and after can_apply_to (called twice); apply_to on a clone_from_root copy must not raise"]
    ts = RS.standard_trees(ctx, ctx.n(300, 6000), eq_share=0.25)
    rnd = ctx.rnd
    ts += [P.const_pair(rnd) for _ in range(ctx.n(150, 2000))]
    ts += [("eq", P.const_pair(rnd), P.const_pair(rnd)) for _ in range(ctx.n(40, 500))]
    eng = RS.Engine(ctx)
    eng.run_trees(ts, WANT)
    inplace_sequences(ctx, eng, ts)
    eng.finish()


def inplace_sequences(ctx, eng, ts):
    """query / rewrite IN PLACE / query again on long-lived rule instances: the answers for the tree as it now is must be
    those of fresh rule instances (an applicability check that keeps state per node object goes stale here)"""
    res, rnd = ctx.res, ctx.rnd
    shared = eng.rules
    for t in ts[:: max(1, len(ts) // ctx.n(150, 1500))]:
        root = P.build(P.normalize(t))
        for step in range(3):
            nodes = P.inorder_nodes(root)
            answers = []
            for name, opt, rule in shared:
                for n in nodes:
                    try:
                        answers.append((name + opt, n, bool(rule.can_apply_to(n))))
                    except Exception:
                        answers.append((name + opt, n, None))
            fresh = {name + opt: rule for name, opt, rule in RS.rule_table()}
            res.evaluations += 1
            for code, n, a in answers:
                try:
                    b = bool(fresh[code].can_apply_to(n))
                except Exception:
                    b = None
                if a != b:
                    res.failures.append(dict(**{"class": "stale-answer"}, rule=code, input=dict(tree=P.sx_text(t), step=step, node=P.path_of(n)),
                                             detail=f"a rule instance used before the in-place rewrite answers {a}, a fresh instance {b}, for the same node of the same tree"))
                    return
            cands = [(code, n) for code, n, a in answers if a and code != "BM0"]
            if not cands:
                break
            code, n = rnd.choice(cands)
            try:
                ch = fresh[code].apply_to(n) if rnd.random() < 0.5 else dict((c, r) for c, _, r in [(a + b, None, r) for a, b, r in shared])[code].apply_to(n)
                root = ch.result.get_root()
            except Exception:
                break


def replay(payload):
    RS_replay(payload)
