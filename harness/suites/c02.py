"""C02 — rewrites preserve the solution set of equations (equation roots)."""
import pyside as P
import rulesuite as RS
from suites.c01 import RS_replay

WANT = {"solution-set"}


def planted(rnd, d):
    """an equation with a planted rational solution: L = R + (L(env) - R(env))."""
    from fractions import Fraction as F
    for _ in range(20):
        L = P.rtree(rnd, d, ops=["add", "add", "sub", "mul", "mul", "neg"])
        R = P.rtree(rnd, max(0, d - 1), ops=["add", "sub", "mul"])
        vs = P.sx_vars(L) | P.sx_vars(R)
        env = {v: F(rnd.choice([1, 2, 3, -1, -2, 4])) for v in vs}
        try:
            a, b = P.eval_exact(L, env), P.eval_exact(R, env)
        except (P.Undefined, P.Irrational):
            continue
        d_ = a - b
        if d_.denominator in (1, 2, 4) and abs(d_) < 10 ** 6:
            c = ("c", ("i", int(d_))) if d_.denominator == 1 else ("c", ("f", d_))
            return ("eq", L, ("add", R, c)) if rnd.random() < 0.5 else ("eq", ("add", R, c), L)
    return ("eq", L, R)


def trees(ctx):
    rnd = ctx.rnd
    ts = [t for t in RS.standard_trees(ctx, ctx.n(250, 4000), eq_share=1.0) if t[0] == "eq"]
    ts += [planted(rnd, rnd.randint(1, 3)) for _ in range(ctx.n(250, 4000))]
    # chained equations and equations below other operators do not occur in parser output except as a = b = c
    ts += [("eq", planted(rnd, 1), P.rtree(rnd, 1)) for _ in range(ctx.n(10, 100))]
    seen, out = set(), []
    for t in ts:
        s = P.sx_text(t)
        if s not in seen and P.sx_size(t) <= 41:
            seen.add(s)
            out.append(t)
    return out


def run(ctx):
    res = ctx.res
    res.rule = ("equation-rooted trees: rule-test equations, random equations, equations with a planted rational solution; every node x 11 rule "
                "configurations; distinct non-trivial = distinct (rule, tree, node) applied; oracle assignments include secant-solved roots of "
                "both the original and the rewritten equation (so that one of them HOLDS) plus off-solution points incl. 0 and negatives")
    res.suites = ["rules (can_apply_to/apply_to vs extracted Rules.can_apply/apply)",
                  "oracle: (l = r) <-> (l' = r') in exact rational arithmetic wherever all four sides are defined"]
    eng = RS.Engine(ctx)
    eng.run_trees(trees(ctx), WANT)
    eng.finish()


def replay(payload):
    RS_replay(payload)
