"""C11 — tokenizer. Correspondence: Tokenizer.tokenize (both padding modes) vs the extracted model.
Oracle (independent of the model): the statement of C11 checked directly on the implementation's
output."""
import re

import common
import gens

NORM = {"–": "-", "[": "(", "]": ")"}
OPCHARS = set(" \t\r\n+-–*/^!()[]=")
WS = set(" \t\r\n")
FUNCS = {"sgn"}


def _is_letter(c):
    return ("a" <= c <= "z") or ("A" <= c <= "Z")


def _is_num(c):
    return c == "." or ("0" <= c <= "9")


def impl_tokenize(s, exclude):
    from mathy_core.tokenizer import Tokenizer

    try:
        ts = Tokenizer(exclude_padding=exclude).tokenize(s)
        return ("OK", [(t.type, t.value) for t in ts])
    except ValueError as e:
        return ("ERR", "ValueError")
    except Exception as e:  # any other exception type is itself a finding
        return ("EXC", type(e).__name__)


def model_lines(cases):
    return [f"TOK {1 if ex else 0} {gens.cps(s)}" for s, ex in cases]


def parse_model(line):
    if line.startswith("OK"):
        toks = []
        for w in line.split()[1:]:
            k, _, v = w.partition(":")
            toks.append((int(k), "".join(chr(int(c)) for c in v.split(".") if c)))
        return ("OK", toks)
    if line.startswith("ERR"):
        return ("ERR", "ValueError")
    return ("MODEL", line)


def oracle(s, keep, drop):
    """Direct check of C11's statement on the implementation's two outputs for input s."""
    from mathy_core.tokenizer import TOKEN_TYPES as T

    supported = all(_is_letter(c) or _is_num(c) or c in OPCHARS for c in s)
    if keep[0] == "EXC" or drop[0] == "EXC":
        return "internal-exception", f"{keep} / {drop}"
    if not supported:
        if keep[0] != "ERR" or drop[0] != "ERR":
            return "unsupported-accepted", "an unsupported character did not raise ValueError"
        return None
    if keep[0] != "OK" or drop[0] != "OK":
        return "supported-rejected", "ValueError on a string over the supported alphabet"
    tk, td = keep[1], drop[1]
    norm = "".join(NORM.get(c, c) for c in s)
    if "".join(v for _, v in tk) != norm:
        return "lossy", f"token values {''.join(v for _, v in tk)!r} != normalised input {norm!r}"
    if not tk or tk[-1] != (T.EOF, "") or any(t == T.EOF for t, _ in tk[:-1]):
        return "eof", "end marker not exactly once at the end"
    if any(v == "" for _, v in tk[:-1]):
        return "empty-token", "a token covers no character"
    # reference segmentation from the character classes (maximal runs)
    exp = []
    for m in re.finditer(r"[0-9.]+|[A-Za-z]+|.", norm, re.S):
        run = m.group(0)
        if _is_num(run[0]):
            exp.append((T.Constant, run))
        elif _is_letter(run[0]):
            if run in FUNCS:
                exp.append((T.Function, run))
            else:
                exp.extend((T.Variable, c) for c in run)
        elif run in WS:
            exp.append((T.Pad, run))
        else:
            kind = {"+": T.Plus, "-": T.Minus, "*": T.Multiply, "/": T.Divide, "^": T.Exponent, "!": T.Factorial,
                    "(": T.OpenParen, ")": T.CloseParen, "=": T.Equal}[run]
            exp.append((kind, run))
    exp.append((T.EOF, ""))
    if tk != exp:
        return "classes", f"stream {tk} differs from the character-class segmentation {exp}"
    if td != [t for t in tk if t[0] != T.Pad]:
        return "padding", "exclude_padding changed more than the whitespace tokens"
    return None


def run(ctx):
    res = ctx.res
    res.rule = ("strings: 55% grammar-directed valid expressions, 15% single-edit mutants, 15% token soups, 15% strings with "
                "unsupported / non-ASCII characters; plus, for a tenth of them, 5-7 variants with ONE unsupported blank-like character "
                "(Unicode whitespace, zero-width space, BOM) next to a supported blank, at an end or inside a run; each in both padding modes; distinct = distinct string; non-trivial = "
                "at least 2 tokens before EOF or rejected for an unsupported character")
    res.suites = ["lex (Tokenizer.tokenize vs extracted Lexer.tokenize)", "oracle: C11 statement on implementation output"]
    n = ctx.n(4000, 60000)
    base = gens.strings(ctx.rnd, n)
    ub = [v for s0 in base[:n // 10] if all(ord(c) < 128 for c in s0) for v in gens.unsupported_blank_variants(ctx.rnd, s0)]
    ss = list(dict.fromkeys(corpus() + base + ub))
    cases = [(s, ex) for s in ss for ex in (False, True)]
    model = [parse_model(l) for l in common.drive(model_lines(cases))] if ctx.driver_ok else [("MODEL", "no driver")] * len(cases)
    k = 0
    for s in ss:
        keep = impl_tokenize(s, False)
        drop = impl_tokenize(s, True)
        for ex, py in ((False, keep), (True, drop)):
            m = model[k]
            k += 1
            res.evaluations += 1
            if py != m:
                res.disagreements.append(dict(suite="lex", input=dict(text=s, exclude_padding=ex), impl=py, model=m))
        res.count("ok" if keep[0] == "OK" else "ValueError")
        res.count(f"len{min(len(s) // 5 * 5, 30)}")
        if (keep[0] == "OK" and len(keep[1]) > 2) or keep[0] == "ERR":
            res.nontrivial.add(s)
        bad = oracle(s, keep, drop)
        if bad:
            res.failures.append(dict(**{"class": bad[0]}, input=dict(text=s, codepoints=[ord(c) for c in s]), detail=bad[1]))
        if len(res.samples) < 6 and len(s) > 4:
            res.sample(dict(text=s, tokens_keep_padding=keep[1] if keep[0] == "OK" else keep))


def corpus():
    return ["", " ", "4x + sgn(–3.5]", "sgn", "sgnx", "xsgn", "s g n", "1.2.3", "..", "x\ty\r\n", "a[b]c", "12abc34", "sgn(sgn(x))",
            "SGN", "Sgn(x)", "x×y", "3−2", "x_1", "١٢", "２", "e", "1e5", "4!", "a=b=c", "4x \xa0+ 2", "x \x0c", "\t\u2003y", "2 \x1f3"]


def replay(payload):
    f = payload["finding"]
    s = f["input"]["text"]
    keep, drop = impl_tokenize(s, False), impl_tokenize(s, True)
    print("input:", repr(s))
    print("implementation keep-padding:", keep)
    print("implementation drop-padding:", drop)
    print("oracle:", oracle(s, keep, drop))
    print("model:", [parse_model(l) for l in common.drive(model_lines([(s, False), (s, True)]))])
