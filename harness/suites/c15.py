"""C15 — rotation preserves the in-order sequence and link consistency."""
import common
import shapes as SH


def nid(n):
    return n._vid


def make_node(collide):
    """nodes whose identity is tracked by _vid; with `collide` several nodes share one id string (as clone() twins do)"""
    from mathy_core.tree import BinaryTreeNode

    def mk(i):
        n = BinaryTreeNode(id=("same" if collide == 1 else f"n{i % 2}") if collide else f"n{i}")
        n._vid = i
        return n
    return mk


def expr_tree(text):
    """a fresh parse of `text` with every node object numbered in pre-order (_vid): (root, shape, table) or None"""
    from mathy_core.parser import ExpressionParser
    from suites.c13 import preorder
    try:
        root = ExpressionParser().parse(text)
    except Exception:
        return None
    table = {}
    for i, o in enumerate(preorder(root)):
        o._vid = i
        table[i] = o
    t, errs = SH.read_back(root, nid)
    return None if errs else (root, t, table)


def rotate_impl(t, p, collide=0, built=None):
    root, table = built if built is not None else SH.build_nodes(t, make_node(collide))
    node = table[SH.sub(t, p)[1]]
    parent = node.parent
    grand = parent.parent if parent is not None else None
    side = None
    if grand is not None:
        side = "L" if grand.left is parent else "R"
    ret = node.rotate()
    new_root = node.get_root() if parent is not None else root
    # the old root may no longer be the root: find it by walking up from the rotated node
    top = node
    steps = 0
    while top.parent is not None and steps < 10000:
        top = top.parent
        steps += 1
    after, errs = SH.read_back(top, nid)
    extra = []
    if ret is not node:
        extra.append("rotate() did not return the node")
    if parent is not None:
        if node.parent is not grand:
            extra.append("the rotated node's parent is not the old grandparent")
        if grand is not None and (grand.left if side == "L" else grand.right) is not node:
            extra.append("the grandparent does not point at the rotated node")
        if parent.parent is not node:
            extra.append("the old parent's parent is not the rotated node")
    return after, errs + extra


def run(ctx):
    res = ctx.res
    rnd = ctx.rnd
    nmax = 7 if ctx.tier == "quick" else 9
    res.rule = (f"ALL binary tree shapes with <= {nmax} nodes x every node (root included), plus random shapes up to 60 nodes x 6 random nodes; "
                "distinct non-trivial = distinct (shape, node) with the node not the root")
    res.suites = ["rotate (shape read back from the real nodes after node.rotate() vs extracted Bt.rotate_tree)",
                  "heap.rotate (left/right/parent pointer of EVERY node object after node.rotate() vs extracted Heap.hrotate run on the object graph before)",
                  "oracle: in-order id sequence unchanged; full link audit (every child's parent is its parent, no node twice, root without parent); "
                  "node.parent = old grandparent; grandparent's child on the parent's old side = node; rotating the root changes nothing"]
    shapes = [SH.label(s)[0] for s in SH.shapes_upto(nmax)]
    cases = [(t, p, 0) for t in shapes for p in SH.paths(t)]
    # node ids are not identities: clone() twins share an id. Same shapes with colliding id strings.
    cases += [(t, p, 1 + (k % 2)) for k, t in enumerate(shapes) if SH.size(t) <= nmax - 1 for p in SH.paths(t)]
    for _ in range(ctx.n(80, 800)):
        t = SH.label(SH.random_shape(rnd, rnd.randint(8, 60)))[0]
        ps = SH.paths(t)
        cases += [(t, rnd.choice(ps), rnd.randint(0, 2)) for _ in range(6)]
    res.dist["exhaustive_upto_nodes"] = nmax
    # EXPRESSION trees (MathExpression subclasses inherit rotate; the associative rule calls it): every node of parsed expressions,
    # operators of mixed kinds, unary nodes (one child), leaves
    import gens
    texts = ["4 * (x + y)", "(a * b) + c", "2x^2 + (3 + y) * z", "-(x + 2) * 3", "sgn(x + 1) * y", "5! + x", "a = b + c", "(x + y) + (x + y)"]
    texts += [gens.valid_expr(rnd, rnd.randint(2, 4)) for _ in range(ctx.n(150, 2000))]
    ecases = []
    for tx in dict.fromkeys(texts):
        b = expr_tree(tx)
        if b is None:
            continue
        ps = SH.paths(b[1])
        for p in (ps if len(ps) <= 9 else rnd.sample(ps, 9)):
            ecases.append((tx, b[1], p))
    emodel = common.drive([f"BTROT {p or '-'} {SH.text(t)}" for _, t, p in ecases]) if ctx.driver_ok else [None] * len(ecases)
    for (tx, t, p), m in zip(ecases, emodel):
        res.evaluations += 1
        inp = dict(expression=tx, shape=SH.text(t), node=p, ids="expression")
        if p:
            res.nontrivial.add((tx, p))
        res.count("expression")
        root, _, table = expr_tree(tx)
        kinds = (type(table[SH.sub(t, p)[1]]).__name__, type(table[SH.sub(t, p)[1]].parent).__name__)
        res.count("expr node/parent same class" if kinds[0] == kinds[1] else "expr node/parent different class")
        try:
            after, errs = rotate_impl(t, p, built=(root, table))
        except Exception as e:
            res.failures.append(dict(**{"class": "rotate-raises"}, input=inp, detail=repr(e)))
            continue
        got = "OK " + SH.text(after)
        if m is not None and m.strip() != got:
            res.disagreements.append(dict(suite="rotate", input=inp, impl=got, model=m, classes=kinds))
        if errs:
            res.failures.append(dict(**{"class": "links"}, input=inp, detail="; ".join(errs[:3]) + f" (node/parent classes {kinds})", after=SH.text(after)))
        elif [a for a, _ in SH.orders(after)[1]] != [a for a, _ in SH.orders(t)[1]]:
            res.failures.append(dict(**{"class": "inorder-changed"}, input=inp, detail="in-order sequence differs after rotate()", after=SH.text(after)))
        elif p and after == t:
            res.failures.append(dict(**{"class": "not-moved"}, input=inp, detail=f"a non-root node was not moved above its parent (node/parent classes {kinds})", after=SH.text(after)))
    model = common.drive([f"BTROT {p or '-'} {SH.text(t)}" for t, p, _ in cases]) if ctx.driver_ok else [None] * len(cases)
    for (t, p, collide), m in zip(cases, model):
        res.evaluations += 1
        inp = dict(shape=SH.text(t), node=p, ids=["distinct", "all equal", "two alternating"][collide])
        if p:
            res.nontrivial.add((SH.text(t), p, collide))
        res.count(inp["ids"])
        try:
            after, errs = rotate_impl(t, p, collide)
        except Exception as e:
            res.failures.append(dict(**{"class": "rotate-raises"}, input=inp, detail=repr(e)))
            continue
        got = "OK " + SH.text(after)
        if m is not None and m.strip() != got:
            res.disagreements.append(dict(suite="rotate", input=inp, impl=got, model=m))
        if errs:
            res.failures.append(dict(**{"class": "links"}, input=inp, detail="; ".join(errs[:3]), after=SH.text(after)))
        elif [a for a, _ in SH.orders(after)[1]] != [a for a, _ in SH.orders(t)[1]]:
            res.failures.append(dict(**{"class": "inorder-changed"}, input=inp, detail="in-order sequence differs after rotate()", after=SH.text(after)))
        elif not p and after != t:
            res.failures.append(dict(**{"class": "root-rotation"}, input=inp, detail="rotating the root changed the tree", after=SH.text(after)))
        elif p and after == t:
            res.failures.append(dict(**{"class": "not-moved"}, input=inp, detail="a non-root node was not moved above its parent", after=SH.text(after)))
        if SH.size(t) == 6 and len(p) == 2:
            res.sample(dict(inp, after=SH.text(after)))
    # ---- heap level: every object's three pointers after node.rotate() vs the extracted Heap.hrotate on the object graph before
    from suites.c13 import heap_records, preorder, blank_scratch
    hl, hm = [], []
    for t, p, collide in cases[:: (3 if ctx.tier == "quick" else 2)]:
        root, table = SH.build_nodes(t, make_node(collide))
        objs = preorder(root)
        node = table[SH.sub(t, p)[1]]
        recs = heap_records(objs, True)
        try:
            node.rotate()
        except Exception as e:
            continue
        after_recs = heap_records(objs, True)
        if any(" X" in r for r in recs + after_recs):
            res.failures.append(dict(**{"class": "links"}, input=dict(shape=SH.text(t), node=p), detail="a pointer leads outside the tree's own nodes after rotate()"))
            continue
        hl.append(f"HEAP rotate {objs.index(node)} " + " | ".join(recs))
        hm.append((f"OK {objs.index(node)} | " + " | ".join(after_recs), dict(shape=SH.text(t), node=p, ids=["distinct", "all equal", "two alternating"][collide])))
    hmodel = common.drive(hl) if ctx.driver_ok else [None] * len(hl)
    for (ans, inp), m in zip(hm, hmodel):
        res.evaluations += 1
        if m is not None and m.startswith("OK") and blank_scratch(m).strip() != blank_scratch(ans).strip():
            res.disagreements.append(dict(suite="heap.rotate", input=inp, impl=blank_scratch(ans)[:400], model=blank_scratch(m)[:400]))
        elif m is not None and not m.startswith("OK"):
            res.disagreements.append(dict(suite="heap.rotate", input=inp, impl=ans[:200], model=m[:200]))


def replay(payload):
    f = payload["finding"]
    print("finding:", f.get("class"), f.get("detail"))
    inp = f["input"]
    t = SH.parse_text(inp["shape"])
    if inp.get("ids") == "expression":
        root, t, table = expr_tree(inp["expression"])
        print("expression:", inp["expression"])
        after, errs = rotate_impl(t, inp["node"], built=(root, table))
    else:
        after, errs = rotate_impl(t, inp["node"], ["distinct", "all equal", "two alternating"].index(inp.get("ids", "distinct")))
    print("before:", inp["shape"], "rotate node at", inp["node"] or "root")
    print("after :", SH.text(after), errs)
    print("model :", common.drive([f"BTROT {inp['node'] or '-'} {inp['shape']}"]))
