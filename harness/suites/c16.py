"""C16 — term analysis is order-invariant and inverse to term construction."""
import itertools
from fractions import Fraction as F

import common
import gens
import pyside as P
import rulesuite as RS
from suites.c03 import impl_parse

COEFS = [None, "1", "2", "3", "4", "7", "10", "12", "100", "0", "0.5", "2.5", "1.25", "3.0", "17", "1099511627776"]
EXPOS = [None, "0", "1", "2", "3", "7", "0.5", "2.0", "10"]


def num_of_text(s):
    return ("f", F(s)) if "." in s else ("i", int(s))


def nneg(t):
    return (t[0], -t[1])


def call(f, *a):
    try:
        return ("OK", f(*a))
    except Exception as e:
        return ("EXC", type(e).__name__)


def impl_lines(root, t):
    """the implementation's answers in the driver's output format, one per (function, node)"""
    from mathy_core import util as U

    def so(n):
        return "-" if n is None else P.sx_text(P.ser(n, audit=False))

    out = []
    for n in P.inorder_nodes(root):
        p = P.path_of(n)
        sub = P.sx_text(P.sx_sub(t, p))
        k, v = call(U.get_sub_terms, n)
        out.append((f"SUBTERMS {sub}", "get_sub_terms", p,
                    "EXC " + v if k == "EXC" else "FALSE" if v is False else ("OK " + " ; ".join(f"{so(a)} , {so(b)} , {so(c)}" for a, b, c in v)).strip()))
        k, v = call(U.is_simple_term, n)
        out.append((f"SIMPLE {sub}", "is_simple_term", p, "EXC " + v if k == "EXC" else "1" if v else "0"))
        k, v = call(U.is_preferred_term_form, n)
        out.append((f"PREFERRED [{p}] {P.sx_text(t)}", "is_preferred_term_form", p, "EXC " + v if k == "EXC" else "1" if v else "0"))
        k, v = call(U.get_term, n)
        if k == "EXC":
            s = "EXC " + v
        elif v is False:
            s = "FALSE"
        else:
            s = ("OK " + ",".join(P.num_text(P.num_tuple(c)) for c in v.coefficients) + " | " + ",".join(str(ord(x)) for x in v.variables) + " | "
                 + ("-" if v.exponent is None else P.num_text(P.num_tuple(v.exponent))))
        out.append((f"GETTERM [{p}] {P.sx_text(t)}", "get_term", p, s))
        k, v = call(U.get_terms, n)
        out.append((f"GETTERMS [{p}] {P.sx_text(t)}", "get_terms", p, "EXC " + v if k == "EXC" else ("OK " + " ".join(f"[{P.path_of(x)}]" for x in v)).strip()))
        k, v = call(U.has_like_terms, n)
        out.append((f"HASLIKE [{p}] {P.sx_text(t)}", "has_like_terms", p, "EXC " + v if k == "EXC" else "1" if v else "0"))
    return out


def has_eq(t):
    return t[0] == "eq" or any(isinstance(a, tuple) and a and isinstance(a[0], str) and has_eq(a) for a in t[1:] if isinstance(a, tuple) and a[0] not in ("i", "f", "nan"))


def trees(ctx):
    rnd = ctx.rnd
    out = []
    for s in P.rule_test_inputs()[:: (3 if ctx.tier == "quick" else 1)]:
        r = impl_parse(s)
        if r[0] == "OK":
            out.append(r[1])
    for s in ["2x^2 * 2y", "2x * 2x * 2y", "x^2 * 4", "2 * 2x^2", "4x * z", "4 * (x^2 * z^6)", "x * 4 * y", "(x^2)^3", "2x / 3y", "x * y^2 * x^2", "b * (44b^2)", "x + -x",
              "2 * 3 + 4", "4 + x + 2", "x*y + y*x", "2x + 3 - x", "(x+1)*2 + 2", "3 + -(4)", "x^2 + 4x^3 + 2y", "x * x", "x^(2y)", "2^x * 4", "x^-y", "sgn(4)x", "-(x + 1)", "x = 2x + 1"]:
        r = impl_parse(s)
        if r[0] == "OK":
            out.append(r[1])
    for _ in range(ctx.n(350, 5000)):
        k = rnd.random()
        if k < 0.35:
            out.append(P.rtree(rnd, rnd.randint(1, 3)))
        elif k < 0.55:
            out.append(P.rtree(rnd, rnd.randint(1, 3), ops=["mul", "mul", "mul", "pow", "div", "neg"]))     # product terms
        elif k < 0.75:
            out.append(P.rtree(rnd, rnd.randint(1, 3), ops=["add", "add", "sub", "mul"]))
        elif k < 0.9:
            out.append(P.rtree_any(rnd, rnd.randint(1, 3)))
        else:
            out.append(("eq", P.rtree(rnd, 2), P.rtree(rnd, 1)))
    return [P.normalize(t) for t in out]


def run(ctx):
    res, rnd = ctx.res, ctx.rnd
    from mathy_core import util as U
    from mathy_core.parser import ExpressionParser

    res.rule = ("trees: parsed rule-test inputs and term examples, random sums/products/mixed trees (10% equations); the seven term functions on EVERY node; "
                "sums of 2-5 random addends in all orders (<= 24) x random groupings; all (sign, coefficient, variable, sign, exponent) texts over a grid incl. absent parts, "
                "zero, decimals, 2^40; make_term over the same grid; factor(n) for every n up to the bound; distinct = distinct (function, input); non-trivial = answers "
                "other than False/None")
    res.suites = ["terms (get_sub_terms, is_simple_term, is_preferred_term_form, get_term, get_terms, has_like_terms, terms_are_like vs extracted Terms.v on every node)",
                  "util (get_term_ex, make_term, factor vs extracted Util.v)",
                  "oracle: has_like_terms equal over all orders and groupings of a sum; terms_are_like reflexive on terms and symmetric; get_term_ex(parse(text)) is the "
                  "written triple; make_term(c, v, e) has the exact value c*v^e and decomposes to the same triple; factor(n) = exactly the divisor pairs; no function "
                  "raises on a tree without '='"]
    # --- correspondence + never-raises on every node
    cases = []
    for t in trees(ctx):
        root = P.build(t)
        eq = has_eq(t)
        for line, fn, p, ans in impl_lines(root, t):
            cases.append((line, fn, t, p, ans, eq))
    model = common.drive([c[0] for c in cases]) if ctx.driver_ok else [None] * len(cases)
    for (line, fn, t, p, ans, eq), m in zip(cases, model):
        res.evaluations += 1
        inp = dict(function=fn, tree=P.sx_text(t), node=p)
        if ans not in ("FALSE", "0"):
            res.nontrivial.add((fn, P.sx_text(t), p))
        res.count(fn + (":" + ans.split(" ")[0] if fn != "get_terms" else ""))
        if ans.startswith("EXC") and not eq:
            res.failures.append(dict(**{"class": "term-function-raises"}, function=fn, input=inp, detail=f"{fn} raises {ans[4:]} on an expression without '='"))
        if m is not None and m != "UNMODELLED" and m.strip() != ans.strip():
            res.disagreements.append(dict(suite="terms." + fn, input=inp, impl=ans[:300], model=m[:300]))
    # --- terms_are_like: correspondence, reflexive, symmetric
    pool = [P.normalize(x) for x in
            [P.rtree(rnd, rnd.randint(0, 2), ops=["mul", "mul", "pow", "neg", "div"]) for _ in range(ctx.n(60, 400))] +
            [("mul", P.V(a), P.V(b)) for a in "xy" for b in "xyz"] + [("mul", ("mul", P.V(a), P.V(b)), P.V(c)) for a in "xy" for b in "xy" for c in "xyz"]]
    pairs = [(rnd.choice(pool), rnd.choice(pool)) for _ in range(ctx.n(1500, 20000))]
    lines = [f"LIKE [] [] {P.sx_text(a)} ; {P.sx_text(b)}" for a, b in pairs]
    model = common.drive(lines) if ctx.driver_ok else [None] * len(lines)
    for (a, b), m in zip(pairs, model):
        res.evaluations += 1
        na, nb = P.build(a), P.build(b)
        ab, ba = bool(U.terms_are_like(na, nb)), bool(U.terms_are_like(nb, na))
        inp = dict(function="terms_are_like", one=P.sx_text(a), two=P.sx_text(b))
        if ab:
            res.nontrivial.add(("like", P.sx_text(a), P.sx_text(b)))
        if m is not None and m != ("1" if ab else "0"):
            res.disagreements.append(dict(suite="terms.terms_are_like", input=inp, impl=ab, model=m))
        if ab != ba:
            res.failures.append(dict(**{"class": "like-not-symmetric"}, input=inp, detail=f"terms_are_like(one, two) = {ab} but terms_are_like(two, one) = {ba}"))
        if U.get_term(na) is not False and not U.terms_are_like(na, P.build(a)):
            res.failures.append(dict(**{"class": "like-not-reflexive"}, input=inp, detail="a term is not like itself"))
    # --- has_like_terms over orders and groupings
    def group(xs):
        if len(xs) == 1:
            return xs[0]
        cut = rnd.randint(1, len(xs) - 1)
        return ("add", group(xs[:cut]), group(xs[cut:]))

    for _ in range(ctx.n(250, 4000)):
        k = rnd.randint(2, 5)
        addends = [P.normalize(P.term(rnd) if rnd.random() < 0.7 else P.rtree(rnd, 1, ops=["mul", "pow", "neg", "div", "sub"])) for _ in range(k)]
        perms = list(itertools.permutations(range(k)))
        rnd.shuffle(perms)
        answers = {}
        for pm in perms[:24]:
            t = group([addends[i] for i in pm])
            res.evaluations += 1
            r = call(U.has_like_terms, P.build(t))
            answers.setdefault(r, P.sx_text(t))
        if len(answers) > 1:
            res.failures.append(dict(**{"class": "like-terms-depend-on-order"}, input=dict(function="has_like_terms", addends=[P.sx_text(a) for a in addends]),
                                     detail={str(k): v for k, v in answers.items()}))
        if ("OK", True) in answers:
            res.nontrivial.add(("perm", tuple(P.sx_text(a) for a in addends)))
    # --- signed chains: t1 - t2 + t3 ... written as a left-nested chain of + and - (the additions and subtractions of ONE sum), terms
    # over one or two variables (products such as xy included, so that a difference x - y and a product xy share their letters);
    # every order of the signed terms that starts with a positive one must give the same answer
    def chain(items):
        t = items[0][1]
        for sg, x in items[1:]:
            t = ("add" if sg > 0 else "sub", t, x)
        return t

    def small_term():
        r = rnd.random()
        if r < 0.5:
            v = P.V(rnd.choice("xxyyz"))
            return v if rnd.random() < 0.6 else ("mul", P.C(rnd.choice([2, 3, 7])), v)
        a, b = sorted(rnd.sample("xyz" if rnd.random() < 0.4 else "xy", 2))
        pr = ("mul", P.V(a), P.V(b))
        return pr if rnd.random() < 0.6 else ("mul", P.C(rnd.choice([2, 5])), pr)

    for _ in range(ctx.n(250, 4000)):
        k = rnd.randint(3, 4)
        items = [(1 if i == 0 or rnd.random() < 0.5 else -1, P.normalize(small_term())) for i in range(k)]
        answers = {}
        for pm in itertools.permutations(range(k)):
            if items[pm[0]][0] < 0:
                continue
            t = chain([items[i] for i in pm])
            res.evaluations += 1
            r = call(U.has_like_terms, P.build(t))
            answers.setdefault(r, P.sx_text(t))
        if len(answers) > 1:
            res.failures.append(dict(**{"class": "like-terms-depend-on-order"}, input=dict(function="has_like_terms", signed_terms=[("+" if sg > 0 else "-") + P.sx_text(a) for sg, a in items]),
                                     detail={str(k): v for k, v in answers.items()}))
        res.count("signed chain: " + ("like terms" if ("OK", True) in answers else "no like terms"))
        if len({sg for sg, _ in items}) > 1:
            res.nontrivial.add(("chain", tuple((sg, P.sx_text(a)) for sg, a in items)))
    # --- natural-order term texts
    parser = ExpressionParser()
    grid = [(sc, c, v, se, e) for sc in ("", "-") for c in COEFS for v in (None, "x", "q") for se in ("", "-") for e in EXPOS
            if not (v is None and (e is not None or c is None)) and not (e is None and se == "-")]
    if ctx.tier == "quick":
        grid = grid[:: 3]
    lines = []
    for sc, c, v, se, e in grid:
        text = sc + (c or "") + (v or "") + ("^" + se + e if e is not None else "")
        res.evaluations += 1
        inp = dict(function="get_term_ex", text=text)
        want_c = None if c is None and sc == "" else (("i", -1) if c is None else (nneg(num_of_text(c)) if sc else num_of_text(c)))
        want_e = None if e is None else (nneg(num_of_text(e)) if se else num_of_text(e))
        try:
            node = parser.parse(text)
            got = U.get_term_ex(node)
        except Exception as ex:
            res.failures.append(dict(**{"class": "term-text"}, input=inp, detail=f"raises {type(ex).__name__}: {ex}"))
            continue
        g = None if got is None else (None if got.coefficient is None else P.num_tuple(got.coefficient), got.variable, None if got.exponent is None else P.num_tuple(got.exponent))
        if g != (want_c, v, want_e):
            res.failures.append(dict(**{"class": "term-text"}, input=inp, detail=f"get_term_ex(parse({text!r})) = {g}, written {(want_c, v, want_e)}"))
        res.nontrivial.add(("text", text))
        lines.append((f"TERMEX 0 {P.sx_text(P.ser(node))}", "-" if g is None else
                      "OK " + ",".join(["-" if g[0] is None else P.num_text(g[0]), "-" if g[1] is None else str(ord(g[1])), "-" if g[2] is None else P.num_text(g[2])]), inp))
    model = common.drive([x[0] for x in lines]) if ctx.driver_ok else [None] * len(lines)
    for (line, ans, inp), m in zip(lines, model):
        if m is not None and m.replace("NONE", "-") != ans:
            res.disagreements.append(dict(suite="util.get_term_ex", input=inp, impl=ans, model=m))
    # --- make_term: value and inverse
    lines = []
    for c in COEFS[1:] + ["-2", "-0.5", "-1"]:
        for v in (None, "x"):
            for e in EXPOS + ["-1", "-2"]:
                if v is None and e is not None:
                    continue
                res.evaluations += 1
                cn, en = num_of_text(c), (None if e is None else num_of_text(e))
                cv = int(c) if cn[0] == "i" else float(c)
                ev = None if e is None else (int(e) if en[0] == "i" else float(e))
                inp = dict(function="make_term", coefficient=c, variable=v, exponent=e)
                try:
                    node = U.make_term(cv, v, ev)
                    t = P.ser(node)
                except Exception as ex:
                    res.failures.append(dict(**{"class": "make-term"}, input=inp, detail=f"raises {type(ex).__name__}: {ex}"))
                    continue
                res.nontrivial.add(("make", c, v, e))
                lines.append((f"MAKETERM {P.num_text(cn)} {'-' if v is None else ord(v)} {'-' if en is None else P.num_text(en)}", "OK " + P.sx_text(t), inp))
                for xv in (F(2), F(-3), F(1, 2), F(5)):
                    try:
                        want = cn[1] * (1 if v is None else (xv ** en[1] if en is not None else xv))
                    except (ZeroDivisionError, OverflowError):
                        continue
                    if not isinstance(want, (int, F)):
                        continue        # irrational power
                    try:
                        got = P.eval_exact(t, {ord("x"): xv})
                    except (P.Undefined, P.Irrational):
                        got = None
                    if got != want:
                        res.failures.append(dict(**{"class": "make-term"}, input=inp, detail=f"value at x={xv} is {got}, c*x^e = {want}"))
                got = U.get_term_ex(node)
                g = (None if got.coefficient is None else P.num_tuple(got.coefficient), got.variable, None if got.exponent is None else P.num_tuple(got.exponent)) if got else None
                want_c = None if (cn[1] == 1 and v is not None) else cn
                if g is None or (g[0] is None) != (want_c is None) or (g[0] is not None and g[0][1] != want_c[1]) or g[1] != v or (g[2] is None) != (en is None) or (en is not None and g[2][1] != en[1]):
                    res.failures.append(dict(**{"class": "make-term"}, input=inp, detail=f"get_term_ex(make_term(...)) = {g}"))
    model = common.drive([x[0] for x in lines]) if ctx.driver_ok else [None] * len(lines)
    for (line, ans, inp), m in zip(lines, model):
        if m is not None and m != ans:
            res.disagreements.append(dict(suite="util.make_term", input=inp, impl=ans, model=m))
    # --- factor tables
    bound = ctx.n(2500, 60000)
    big = [rnd.randrange(1, 2 ** 34) for _ in range(ctx.n(30, 300))] + [2 ** 40, 3 ** 20, 999983 * 999979, 2 ** 26 * 3]
    ns = list(range(1, bound + 1)) + [rnd.randrange(1, 2 ** 22) for _ in range(ctx.n(60, 600))] + big
    lines = []
    for n in ns:
        res.evaluations += 1
        inp = dict(function="factor", n=n)
        try:
            tab = U.factor(n)
        except Exception as ex:
            res.failures.append(dict(**{"class": "factor-table"}, input=inp, detail=f"raises {type(ex).__name__}"))
            continue
        keys = sorted(int(k) for k in tab)
        small = [d for d in range(1, int(n ** 0.5) + 2) if d * d <= n and n % d == 0]
        divs = sorted(set(small + [n // d for d in small]))
        if keys != divs or any(k * v != n or k != int(k) for k, v in tab.items()):
            res.failures.append(dict(**{"class": "factor-table"}, input=inp, detail=f"factor({n}) has keys {keys[:12]}..., divisors are {divs[:12]}..."))
        if len(divs) > 2:
            res.nontrivial.add(("factor", n))
        if n <= 400 or bound < n < 2 ** 22:
            lines.append((f"FACTOR i{n}", "OK " + " ".join(f"{P.num_text(P.num_tuple(k))}:{P.num_text(P.num_tuple(v))}" for k, v in tab.items()), inp))
    model = common.drive([x[0] for x in lines]) if ctx.driver_ok else [None] * len(lines)
    for (line, ans, inp), m in zip(lines, model):
        if m is not None and m.strip() != ans.strip():
            res.disagreements.append(dict(suite="util.factor", input=inp, impl=ans[:200], model=m[:200]))
    res.sample(dict(get_term_ex="-4x^2 -> (-4, x, 2)", factor_12=str(U.factor(12))))


def replay(payload):
    from mathy_core import util as U
    f = payload["finding"]
    print("finding:", f.get("class"), f.get("detail"))
    inp = f["input"]
    print("input  :", inp)
    fn = inp.get("function")
    if "tree" in inp:
        root = P.build(P.sx_parse(inp["tree"]))
        node = P.node_at(root, inp.get("node", ""))
        print("tree:", root, " node:", node)
        print(fn, "->", call(getattr(U, fn), node))
    elif fn == "terms_are_like":
        a, b = P.build(P.sx_parse(inp["one"])), P.build(P.sx_parse(inp["two"]))
        print(f"terms_are_like({a}, {b}) = {U.terms_are_like(a, b)};  terms_are_like({b}, {a}) = {U.terms_are_like(b, a)}")
    elif fn == "has_like_terms":
        print("addends:", inp.get("addends") or inp.get("signed_terms"))
        for ans, tx in (f.get("detail") or {}).items():
            t = P.build(P.sx_parse(tx))
            print(f"  recorded {ans}: has_like_terms({t}) now = {call(U.has_like_terms, t)}")
    elif fn == "factor":
        print(U.factor(inp["n"]))
