"""C07 — rewritten trees are structurally sound and leave the untouched context intact."""
import pyside as P
import rulesuite as RS
from suites.c01 import RS_replay

WANT = {"audit", "vars", "context", "original-modified", "plans"}


def run(ctx):
    res = ctx.res
    res.rule = ("trees as in C01 with 30% equation roots, every rule-test input embedded in random contexts (under every parent kind and side); "
                "every node x 11 rule configurations; distinct non-trivial = distinct (rule, tree, node) applied")
    res.suites = ["rules (apply_to result tree and result path vs extracted model)",
                  "plans (object identities: for every node object of the result, the path it had in the tree the rule was applied to, or fresh, vs Plans.v)",
                  "oracle: heap audit of the result (parent/child consistency, arities, no shared node object, root without parent), subtrees outside the "
                  "rewritten neighbourhood unchanged, variable set unchanged, source tree of the clone bit-identical before/after"]
    ts = RS.standard_trees(ctx, ctx.n(600, 10000), eq_share=0.3)
    eng = RS.Engine(ctx)
    eng.run_trees(ts, WANT)
    eng.finish()


def replay(payload):
    RS_replay(payload)
