"""C18 — tree layout satisfies the tidy-tree invariants and is repeatable."""
from fractions import Fraction as F

import common
import shapes as SH


def nid(n):
    return int(n.id[1:])


def layout_impl(t, ux, uy, repeat):
    from mathy_core.layout import TreeLayout

    root, table = SH.build_nodes(t)
    outs = []
    for _ in range(repeat):
        m = TreeLayout().layout(root, float(ux), float(uy))
        coords = {}
        order = [a for a, _ in SH.orders(t)[1]]
        for i in order:
            n = table[i]
            coords[i] = (F(n.x), F(n.y))
        outs.append((coords, (F(m.minX), F(m.maxX), F(m.minY), F(m.maxY)), m))
    return outs


def fmt(coords, order, b):
    q = lambda v: f"{v.numerator}/{v.denominator}"
    return " ".join(f"{i}:{q(coords[i][0])}:{q(coords[i][1])}" for i in order) + " ; " + " ".join(q(v) for v in b)


def tidy(t, coords, ux, uy):
    """the invariants of C18 checked directly on assigned coordinates; returns list of (class, detail)"""
    bad = []
    depth = {a: d for a, d in SH.orders(t)[0]}
    for i, (x, y) in coords.items():
        if y != depth[i] * uy:
            bad.append(("y-not-depth", f"node {i}: y = {y}, depth {depth[i]} x unit {uy}"))

    def go(s):
        if s is None:
            return
        l, i, r = s
        if l is not None and not coords[l[1]][0] < coords[i][0]:
            bad.append(("child-side", f"left child {l[1]} at x={coords[l[1]][0]} is not left of its parent {i} at x={coords[i][0]}"))
        if r is not None and not coords[r[1]][0] > coords[i][0]:
            bad.append(("child-side", f"right child {r[1]} at x={coords[r[1]][0]} is not right of its parent {i} at x={coords[i][0]}"))
        if l is not None and r is not None and coords[i][0] * 2 != coords[l[1]][0] + coords[r[1]][0]:
            bad.append(("not-centred", f"parent {i} is not centred over its two children"))
        go(l)
        go(r)

    go(t)
    last = {}
    for i, d in SH.orders(t)[1]:
        x = coords[i][0]
        if d in last and not x >= last[d][1] + ux:
            bad.append(("level-order", f"nodes {last[d][0]} and {i} on level {d} are out of order or closer than one unit ({last[d][1]} , {x})"))
        last[d] = (i, x)
    return bad


def run(ctx):
    res = ctx.res
    rnd = ctx.rnd
    nmax = 7 if ctx.tier == "quick" else 9
    res.rule = (f"ALL binary tree shapes with <= {nmax} nodes (incl. one-child nodes) and all full binary trees with <= {2 * (6 if ctx.tier == 'quick' else 8) + 1} nodes, "
                "plus random shapes up to 80 nodes and mirrored shapes; unit multipliers from a dyadic set; 3 layout() calls on the same nodes; "
                "distinct non-trivial = distinct shape with >= 3 nodes")
    res.suites = ["layout (x, y of every node and the TreeMeasurement bounds of each of 3 repeated calls vs extracted Layout.layout/measure_bounds, compared exactly)",
                  "oracle: y = depth x unit; children strictly on their side; parent centred over two children; level order with separation >= 1 unit; bounds = bounding box; "
                  "repeat = same coordinates; mirror = mirrored coordinates"]
    shapes = [SH.label(s)[0] for s in SH.shapes_upto(nmax)]
    fulls = []
    kmax = 6 if ctx.tier == "quick" else 8

    def full(k):
        if k == 0:
            return [(None, None)]
        out = []
        for i in range(k):
            for l in full(i):
                for r in full(k - 1 - i):
                    out.append((l, r))
        return out
    for k in range(1, kmax + 1):
        fulls += [SH.label(s)[0] for s in full(k)]
    shapes += fulls
    for _ in range(ctx.n(60, 600)):
        shapes.append(SH.label(SH.random_shape(rnd, rnd.randint(8, 80)))[0])

    def rfull(k):
        if k == 0:
            return (None, None)
        i = rnd.randint(0, k - 1)
        return (rfull(i), rfull(k - 1 - i))
    for _ in range(ctx.n(60, 600)):
        shapes.append(SH.label(rfull(rnd.randint(7, 40)))[0])
    # canonical witnesses of the recorded findings (known_findings.json)
    shapes.append(SH.parse_text("(((. 2 .) 1 ((. 4 .) 3 (. 5 .))) 0 ((. 7 .) 6 (((. 10 .) 9 (. 11 .)) 8 ((. 13 .) 12 (. 14 .)))))"))
    shapes.append(SH.parse_text("((. 1 (. 2 (. 3 .))) 0 ((. 5 .) 4 .))"))
    res.dist["exhaustive_upto_nodes"] = nmax
    res.dist["full_trees"] = len(fulls)
    units = [(F(1), F(1)), (F(2), F(1)), (F(1, 2), F(3)), (F(3), F(1, 2)), (F(1), F(1))]
    cases = [(t, *units[k % len(units)]) for k, t in enumerate(shapes)]
    q = lambda v: f"f{v.numerator}/{v.denominator}"
    model = common.drive([f"LAYOUT 3 {q(ux)} {q(uy)} {SH.text(t)}" for t, ux, uy in cases]) if ctx.driver_ok else [None] * len(cases)
    for (t, ux, uy), m in zip(cases, model):
        res.evaluations += 1
        inp = dict(shape=SH.text(t), unit_x=str(ux), unit_y=str(uy))
        n = SH.size(t)
        full_tree = SH.is_full(t)
        if n >= 3:
            res.nontrivial.add(SH.text(t))
        res.count("full" if full_tree else "one-child-nodes")
        try:
            outs = layout_impl(t, ux, uy, 3)
        except Exception as e:
            res.failures.append(dict(**{"class": "layout-raises"}, input=inp, detail=repr(e)))
            continue
        order = [a for a, _ in SH.orders(t)[1]]
        got = " | ".join(fmt(c, order, b) for c, b, _ in outs)
        if m is not None and m.strip() != got.strip():
            res.disagreements.append(dict(suite="layout", input=inp, impl=got[:600], model=m[:600]))
        coords, b, meas = outs[0]
        shape_kind = ("full>=15" if n >= 15 else "full<15") if full_tree else "one-child-nodes"
        for cls, detail in tidy(t, coords, ux, uy)[:2]:
            res.failures.append(dict(**{"class": cls}, shape_kind=shape_kind, input=inp, detail=detail))
        xs = [c[0] for c in coords.values()]
        ys = [c[1] for c in coords.values()]
        if b != (min(xs), max(xs), min(ys), max(ys)) or F(meas.width) != max(xs) - min(xs) or F(meas.height) != max(ys) - min(ys):
            res.failures.append(dict(**{"class": "bounds"}, shape_kind=shape_kind, input=inp, detail=f"measurement {b} is not the bounding box ({min(xs)}, {max(xs)}, {min(ys)}, {max(ys)})"))
        if outs[1][0] != coords or outs[2][0] != coords:
            res.failures.append(dict(**{"class": "not-repeatable"}, shape_kind=shape_kind, input=inp, detail="a second / third layout() of the same nodes gives other coordinates"))
        # mirrored tree gives mirrored coordinates
        mt = SH.mirror(t)
        mc = layout_impl(mt, ux, uy, 1)[0][0]
        if any(mc[i] != (-coords[i][0], coords[i][1]) for i in coords):
            res.failures.append(dict(**{"class": "mirror"}, shape_kind=shape_kind, input=inp, detail="the mirrored tree is not laid out as the mirror image"))
        if n == 7 and full_tree:
            res.sample(dict(inp, coordinates={str(k): [str(v[0]), str(v[1])] for k, v in coords.items()}))


def replay(payload):
    f = payload["finding"]
    print("finding:", f.get("class"), f.get("detail"))
    inp = f["input"]
    t = SH.parse_text(inp["shape"])
    ux, uy = F(inp["unit_x"]), F(inp["unit_y"])
    order = [a for a, _ in SH.orders(t)[1]]
    for c, b, _ in layout_impl(t, ux, uy, 3):
        print("implementation:", fmt(c, order, b))
    q = lambda v: f"f{v.numerator}/{v.denominator}"
    print("model:", common.drive([f"LAYOUT 3 {q(ux)} {q(uy)} {inp['shape']}"]))
