"""C10 — parsing is total, has a closed error contract and keeps no sticky state."""
import re
import sys

import common
import gens
import pyside as P
from suites.c03 import impl_parse, model_parse, same_outcome
from suites import c12

ALLOWED = {"InvalidExpression", "OutOfTokens", "InvalidSyntax", "UnexpectedBehavior", "TrailingTokens", "ValueError"}


def malformed(rnd, n):
    out = []
    for _ in range(n):
        r = rnd.random()
        if r < 0.35:
            out.append(gens.soup(rnd, 14))
        elif r < 0.6:
            s = gens.valid_expr(rnd, rnd.randint(1, 4))
            out.append(s[: rnd.randint(0, len(s))])
        elif r < 0.8:
            s = gens.valid_expr(rnd, rnd.randint(1, 3))
            for _ in range(rnd.randint(1, 3)):
                s = gens.mutate(rnd, s)
            out.append(s)
        elif r < 0.87:
            out.append(gens.weird(rnd))
        elif r < 0.9:
            # otherwise valid text with ONE unsupported blank-like character (must raise ValueError in every position)
            out.append(rnd.choice(gens.unsupported_blank_variants(rnd, gens.valid_expr(rnd, rnd.randint(1, 3)))))
        else:
            out.append(gens.valid_expr(rnd, rnd.randint(1, 4)))
    return out


CORPUS = ["", " ", "(", ")", "()", "(()", "x)", "sgn", "sgn(", "sgn()", "sgn x", "!", "x!", "5!!", "^", "x^", "^x", "2^", "=", "x=", "=x", "x==y", "1.2.3", ".", "..", "1..2", "1..", "1.2.", ".5.", "2^3..", "sgn(4..)", "8.. + 1", "3.", "x + 1..", "(1.2.3)",
          "x +", "+ x", "x + + y", "x - - y", "x * / y", "*", "/", "x /", "- ", "--x", "-", "2 3", "x 2", "2 x", "(x", "((x))", "[x)", "(x]", "x y )", "4!x", "sgn(x", "sgn(x))",
          "9" * 50, "x" * 60, "(" * 30 + "x" + ")" * 30, "-" * 5 + "x", "1e5", "0x10", "x_1", "3,4", "½"]


def recursion_probe(res):
    """nesting is bounded by the CPython recursion limit (runtime); a FLAT chain must not need deep recursion."""
    from mathy_core.parser import ExpressionParser

    lim = sys.getrecursionlimit()
    findings = []
    for name, mk in (("flat-product", lambda n: " * ".join(["x"] * n)), ("flat-quotient", lambda n: " / ".join(["2"] * n)),
                     ("flat-sum", lambda n: " + ".join(["x"] * n)), ("flat-juxtaposition", lambda n: "x" * n), ("flat-equation", lambda n: " = ".join(["x"] * n))):
        n = 3000
        res.evaluations += 1
        r = impl_parse(mk(n), serialize=False)
        res.count(f"probe-{name}-{r[0] if r[0] == 'OK' else r[1]}")
        if r[0] != "OK":
            findings.append(dict(**{"class": "recursion-" + name}, input=dict(text=f"{name} of {n} operands (nesting depth 0)"),
                                 detail=f"{r[1]} at recursion limit {lim} although the nesting depth of the input is 0"))
    return findings


def run(ctx):
    res = ctx.res
    rnd = ctx.rnd
    res.rule = ("strings: corpus of truncations and token soups, random soups, truncated / multiply mutated valid expressions, unsupported characters; "
                "call histories mixing failing and succeeding parses on one parser; flat chains of 3000 operands; distinct = distinct string or history; "
                "non-trivial = the parse raises, or the history has >= 3 calls")
    res.suites = ["parse (outcome kind incl. exception class vs extracted Parser.parse)", "history (vs extracted ParserObj.pstep)",
                  "oracle: the exception type escaping ExpressionParser.parse is a documented ParserException or ValueError; a used parser answers like a fresh one; "
                  "flat chains need no deep recursion"]
    ss = list(dict.fromkeys(CORPUS + malformed(rnd, ctx.n(5000, 80000))))
    model = model_parse(ss) if ctx.driver_ok else [None] * len(ss)
    for s, m in zip(ss, model):
        res.evaluations += 1
        py = impl_parse(s)
        if m is not None and not same_outcome(py, m):
            res.disagreements.append(dict(suite="parse", input=dict(text=s), impl=(py[0], P.sx_text(py[1]) if py[0] == "OK" else py[1]),
                                          model=(m[0], P.sx_text(m[1]) if m[0] == "OK" else m[1])))
        res.count("ok" if py[0] == "OK" else py[1])
        if py[0] != "OK":
            res.nontrivial.add(s)
        if py[0] == "AUDIT":
            res.failures.append(dict(**{"class": "malformed-tree"}, input=dict(text=s), detail=py[1]))
        elif py[0] == "EXC" and py[1] not in ALLOWED:
            res.failures.append(dict(**{"class": "internal-error"}, input=dict(text=s), detail=f"{py[1]} escaped ExpressionParser.parse"))
        # "... or ValueError for an unsupported character or malformed number": a string with an unsupported character always raises
        # ValueError (theorem C10_unsupported_character); one with a malformed number never parses (every constant token of a successful
        # parse has been converted) and raises ValueError unless a syntax error is met first (seed C10-D accepted `1..` as 1)
        bad_run = any(r.count(".") >= 2 or r == "." for r in re.findall(r"[0-9.]+", s))
        unsupported = any(not (c.isascii() and (c.isalnum() or c in "+-*/^!=()[]. \t\n\r")) and c != "\u2013" for c in s)
        if unsupported and py != ("EXC", "ValueError"):
            res.failures.append(dict(**{"class": "unsupported-character-not-ValueError"}, input=dict(text=s), detail=f"{py[0]} {py[1] if py[0] == 'EXC' else ''}"))
        elif bad_run and py[0] == "OK":
            res.failures.append(dict(**{"class": "malformed-number-accepted"}, input=dict(text=s), detail=f"parsed to {P.sx_text(py[1])}"))
        if py[0] == "EXC" and len(s) > 3:
            res.sample(dict(text=s, raises=py[1]))
    c12.check_histories(ctx, ctx.n(1200, 20000), "history")
    res.failures.extend(recursion_probe(res))


def replay(payload):
    f = payload["finding"]
    print("finding:", f.get("class"), f.get("detail"))
    inp = f["input"]
    if "text" in inp and not inp["text"].startswith("flat-"):
        print("text:", repr(inp["text"]), "->", impl_parse(inp["text"]))
    else:
        print("input:", inp)
