"""C01 — every applicable rewrite preserves the value (non-equation roots)."""
import pyside as P
import rulesuite as RS

WANT = {"value"}


def trees(ctx):
    ts = RS.standard_trees(ctx, ctx.n(700, 12000), eq_share=0.0)
    return [t for t in ts if t[0] != "eq"]


def run(ctx):
    res = ctx.res
    res.rule = ("trees: every input/output of rules/*.test.json (all classifier arrangements) plain and embedded in random contexts, plus random "
                "term trees (depth<=4, constants incl. 0, negatives, dyadic floats, exponents 0/1/negative/fractional); every node x 11 rule "
                "configurations; distinct non-trivial = distinct (rule, tree, node) with can_apply_to = True and apply_to completed")
    res.suites = ["rules (can_apply_to/apply_to vs extracted Rules.can_apply/apply: applicability, result tree, result path)",
                  "oracle: exact rational evaluation of before/after at >= 8 assignments incl. 0 and negatives (int-only trees compared exactly)"]
    eng = RS.Engine(ctx)
    eng.run_trees(trees(ctx), WANT)
    eng.finish()


def replay(payload):
    RS_replay(payload)


def RS_replay(payload):
    import common
    f = payload["finding"]
    inp = f["input"]
    t = P.sx_parse(inp["tree"])
    rules = {n + o: r for n, o, r in RS.rule_table()}
    rule = rules[inp["rule"]]
    base = P.build(t)
    node = P.node_at(base, inp["node"])
    print("tree  :", base)
    print("node  :", node, " rule:", inp["rule"], " can_apply_to:", rule.can_apply_to(node))
    work = node.clone_from_root()
    try:
        ch = rule.apply_to(work)
        print("result:", ch.result.get_root())
    except Exception as e:
        print("apply_to raised:", repr(e))
    print("finding:", f.get("class"), f.get("detail"))
    name, opt = inp["rule"][:2], inp["rule"][2:]
    print("model :", common.drive([f"APPLY {name} {opt} [{inp['node']}] {inp['tree']}"]))
