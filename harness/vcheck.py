#!/venv/bin/python
"""Entry point of every check:  vcheck.py <Cxx> [--tier quick|thorough] [--replay file]

Protocol (DESIGN.md 3.6): rebuild from /repo's working tree; proof obligations of Cxx; corpus and
correspondence suites of Cxx; independent property oracle on the implementation; on a broken
obligation or correspondence search for a concrete failing input; write evidence; exit 0/1."""
import argparse
import importlib
import json
import os
import random
import sys
import time

sys.path.insert(0, os.path.dirname(os.path.abspath(__file__)))
import common  # noqa: E402
from common import log  # noqa: E402


class Ctx:
    def __init__(self, prop, tier, seed, scale):
        self.prop, self.tier, self.seed, self.scale = prop, tier, seed, scale
        self.rnd = random.Random(seed * 1000003 + sum(ord(c) for c in prop))
        self.res = common.Result(prop, tier, seed)
        self.deep = False

    def n(self, quick, thorough=None):
        base = quick if self.tier == "quick" else (thorough if thorough is not None else quick * 10)
        return max(1, int(base * self.scale))


def main():
    ap = argparse.ArgumentParser()
    ap.add_argument("prop")
    ap.add_argument("--tier", default=os.environ.get("VERIF_TIER", "quick"))
    ap.add_argument("--replay")
    args = ap.parse_args()
    prop = args.prop
    tier = args.tier if args.tier in ("quick", "thorough") else "quick"
    seed = int(os.environ.get("VERIF_SEED", "0") or 0)
    t0 = time.time()
    os.environ["PYTHONHASHSEED"] = "0"
    common.force_repo_import()
    suite = importlib.import_module(f"suites.{prop.lower()}")

    if args.replay:
        payload = json.load(open(args.replay))
        build = common.ensure_build()
        suite.replay(payload)
        return 0

    build = common.ensure_build()
    obl = common.check_obligations(prop, build)
    coqchk = None
    if tier == "thorough" and not obl["problems"]:
        probs, coqchk = common.run_coqchk(prop)
        obl["problems"] += probs
    if obl["problems"]:
        log(f"[{prop}] proof obligations: {obl['problems']}")
    if not build.driver_ok:
        log(f"[{prop}] driver unavailable: {build.driver_error}")

    ctx = Ctx(prop, tier, seed, 1.0)
    ctx.driver_ok = build.driver_ok
    suite.run(ctx)
    res = ctx.res
    # extraction cross-check: a sample of this run's driver answers is re-evaluated by the kernel (vm_compute)
    if build.driver_ok and common.XLOG and not os.environ.get("VERIF_NO_XCHECK"):
        import xcheck
        k = 120 if tier == "quick" else 1200
        sample = ctx.rnd.sample(common.XLOG, min(k, len(common.XLOG)))
        sample = [x for x in sample if len(x[0]) < 2500]
        n, bad = xcheck.cross_check(sample, prop)
        for l, a, st in bad[:5]:
            res.disagreements.append(dict(suite="extraction", input=dict(command=l[:300]), impl="(kernel evaluation by vm_compute differs)", model=a[:300], statement=str(st)[:400]))
        res.notes.append(f"extraction cross-check: {n} driver answers (parse / print / eval / rule application) re-evaluated inside Coq by vm_compute: {len(bad)} differ")
    if coqchk is not None:
        res.notes.append("coqchk -o (independent checker) re-checked the property file and its dependencies; axioms of the whole context: "
                         + (", ".join(coqchk.get("axioms", [])) or "none") + "; no type-in-type, unsafe fixpoints or assumed positivity")
    broken = bool(obl["problems"]) or bool(res.disagreements) or not build.driver_ok
    if broken and not res.failures:
        # a theorem or the correspondence no longer checks: search harder for a concrete failing input
        log(f"[{prop}] broken obligation/correspondence; searching for a failing input with three times the budget")
        ctx2 = Ctx(prop, tier, seed + 1, 3.0)   # three times the budget of this tier, other seed
        ctx2.driver_ok = build.driver_ok
        ctx2.deep = True
        ctx2.focus = [d.get("input") for d in res.disagreements[:50]]
        try:
            suite.run(ctx2)
        except Exception as e:  # the deep search must not mask the original finding
            log(f"[{prop}] deep search aborted: {e!r}")
        res.failures.extend(ctx2.res.failures)
        res.evaluations += ctx2.res.evaluations
        res.nontrivial |= ctx2.res.nontrivial
        res.notes.append(f"deep search ran: {ctx2.res.evaluations} further evaluations")

    known = common.load_known(prop)
    known_hits, new_failures = {}, []
    for f in res.failures:
        e = common.match_known(f, known)
        if e is not None:
            known_hits.setdefault(e["id"], (e, f))
        else:
            new_failures.append(f)
    known_printed = []
    for kid, (e, f) in sorted(known_hits.items()):
        line = f"KNOWN-FINDING: property={prop} {e['what']} [witness: {json.dumps(f.get('input'), default=str)[:160]}]"
        print(line)
        known_printed.append(line)
    # every listed known finding must still be reproduced by its canonical witness (run by the suite)
    for e in known:
        if e["id"] not in known_hits:
            res.notes.append(f"known finding {e['id']} was not reproduced in this run")

    rc = 0
    nviol = 0
    if new_failures:
        # group by class; one replay per class (first = smallest found)
        seen = set()
        for f in new_failures:
            cls = f.get("class", "?")
            if cls in seen:
                continue
            seen.add(cls)
            nviol += 1
            path = common.write_replay(prop, nviol, dict(property=prop, kind="failing-input", finding=f,
                                                         replay_cmd=f"cd /verif && {common.PY} harness/vcheck.py {prop} --replay <this file>"))
            print(f"VIOLATION property={prop} replay={path}")
        rc = 1
    elif broken:
        nviol = 1
        what = dict(property=prop, kind="unproved",
                    broken_obligations=obl["problems"],
                    broken_correspondence=res.disagreements[:10],
                    driver_error=build.driver_error,
                    note="the theorem(s) or correspondence suite(s) named here no longer check; the search of model and implementation found no input on which the property itself fails")
        path = common.write_replay(prop, 1, what)
        print(f"VIOLATION property={prop} replay={path} no-failing-input-found")
        rc = 1
    wall = time.time() - t0
    common.write_evidence(prop, tier, seed, res, obl, wall, nviol, known_printed)
    log(f"[{prop}] tier={tier} seed={seed} evaluations={res.evaluations} nontrivial={len(res.nontrivial)} "
        f"disagreements={len(res.disagreements)} failures={len(res.failures)} obligations={obl['discharged']}/{obl['obligations']} wall={wall:.1f}s rc={rc}")
    return rc


if __name__ == "__main__":
    sys.exit(main())
