#!/venv/bin/python
"""Developer tool: mutation test of the MODEL against the correspondence.

The theorems are about coq/theories; only the correspondence ties those definitions to /repo. This tool checks that the tie is
tight where it matters: it plants a small change in a model definition (in a scratch copy outside /verif), rebuilds only the
extracted driver from the mutated theories, and runs the property's suite against the UNCHANGED implementation with that driver.
(Known equivalent mutants, not in the list: not stripping trailing zeros in show_num - with the minimal number of decimals there are\nnone; clear_cache keeping the token cache - clients only ever get copies, so the token cache is not observable.)\nA mutant the suite does not notice marks a part of the model that the generators do not exercise (that is how the zero-padding bug
of Printer.show_num stayed hidden until a proof found it). Results go to /verif/seeded/model-mutants.json."""
import json
import os
import shutil
import subprocess
import sys
import tempfile

V = os.path.dirname(os.path.dirname(os.path.abspath(__file__)))
COQ = os.path.join(V, "coq")

MUTANTS = [
    ("printer-right-assoc-parens", "Printer.v", "DR => addsub k && addsub pk", "DR => false", "C04", "a - (b - c) without parentheses"),
    ("printer-pad", "Printer.v", "repeat 48%N (n - length l) ++ l", "repeat 48%N (min 1 (n - length l)) ++ l", "C04", "the old padding bug: 0.007 as 0.07"),
    ("sgn-zero", "Num.v", "else if nlt (NInt 0) a then NInt 1 else NInt 0.", "else if nlt (NInt 0) a then NInt 1 else NInt 1.", "C05", "sgn(0) = 1"),
    ("abs-negative", "Num.v", "Definition nabs (a:num) : num := if nlt a (NInt 0) then nneg a else a.", "Definition nabs (a:num) : num := a.", "C05", "abs of a negative number left negative"),
    ("eval-default", "Eval.v", "| Var v => match rho v with Some n => EOk n | None => EValueError end", "| Var v => match rho v with Some n => EOk n | None => EOk (NInt 0) end", "C05", "missing variable defaults to 0"),
    ("term-neg-coef", "Terms.v", "| PNeg => [nneg c]", "| PNeg => [c]", "C16", "coefficient under a negation not negated"),
    ("terms-root-mul", "Terms.v", "(if is_mul_e root then [[]] else [])", "([])", "C16", "get_terms forgets a multiply root"),
    ("clone-parent", "Heap.v", "Definition link_r (h:heap) (a c:nat) : heap := upd (upd h a (set_r (Some c))) c (set_p (Some a)).",
     "Definition link_r (h:heap) (a c:nat) : heap := upd (upd h a (set_r (Some c))) c (set_p None).", "C13", "right child's parent pointer not set in the copy"),
    ("rotate-grandparent", "Heap.v", "else upd h2 g (set_r (Some node)) end end end end end.", "else upd h2 g (set_l (Some node)) end end end end end.", "C15",
     "rotation re-attaches on the wrong side of the grandparent"),
    ("round-ties", "Problems.v", "else if Z.even fl then fl else fl + 1.", "else fl + 1.", "C17", "%.1f ties rounded up instead of to even"),
    ("haystack-complexity", "Problems.v", "Z.of_nat (length lt) + 1 + Z.of_nat (length rt)", "Z.of_nat (length lt) + Z.of_nat (length rt)", "C17", "complexity off by one"),
    ("parser-pow-first", "Parser.v", "match rev fs with [] => [] | last::ri => rev ri ++ [Bin KPow last r] end", "match fs with [] => [] | f0::rest => Bin KPow f0 r :: rest end", "C03",
     "an exponent after juxtaposed factors binds to the first factor"),
    ("bt-post-order", "Bt.v", "let (s1,st) := visit_post l (d+1) s in if st then (s1,true) else\n    let (s2,st) := visit_post r (d+1) s1 in if st then (s2,true) else",
     "let (s1,st) := visit_post r (d+1) s in if st then (s1,true) else\n    let (s2,st) := visit_post l (d+1) s1 in if st then (s2,true) else", "C14", "post-order visits the right child first"),
    ("factor-best", "Util.v", "nmin c0 (c0::cs) else nmax c0 (c0::cs)", "nmax c0 (c0::cs) else nmax c0 (c0::cs)", "C08", "factor-out takes the largest common factor when variables are present"),
    ("parser-alias", "ParserObj.v", "(with_heap st (heap st ++ [hget (heap st) r]), Some copy)", "(st, Some r)", "C12", "a cache hit hands out the cached list itself"),
    ("layout-centre", "Layout.v", "let o := qred ((rootsep + 1) / 2) in", "let o := qred ((rootsep + 2) / 2) in", "C18", "children offset by half of (separation + 2)"),
    ("rules-dm-order", "Rules.v", "let ac := if a_var && is_const (Some c) then Bin KMul c a else Bin KMul a c in", "let ac := Bin KMul a c in", "C08",
     "distribution does not put a constant factor first in the second product"),
    ("rules-mi-neg", "Rules.v", "ROk (replace root p (Bin KMul l (Bin KDiv (Const (NInt (-1))) c)), p)", "ROk (replace root p (Bin KMul l (Bin KDiv (Const (NInt 1)) (Un UNeg c))), p)", "C01",
     "a / -b restated with the negation kept in the denominator"),
    ("rules-rs-parent", "Rules.v", "is_k KSub node && (match par with None => true | Some _ => is_k KEq par || is_k KAdd par end)", "is_k KSub node && true", "C06",
     "restate-subtraction accepted below any parent"),
    ("plans-rs-keep", "Plans.v", "| S_SUB => Some (PBin KAdd (PKeep [DL]) (PUn UNeg (PKeep [DR])))", "| S_SUB => Some (PBin KAdd (PKeep [DL]) (PUn UNeg (PNew r)))", "C07",
     "plan of restate-subtraction says the subtrahend is copied (the code re-uses the object)"),
    ("plans-comm-chain", "Plans.v", "if chain then POld [] (POld [DL] (PKeep [DL;DL]) (PKeep [DR])) (PKeep [DL;DR]) else POld [] (PKeep [DR]) (PKeep [DL]) end)",
     "if chain then POld [] (PBin k (PKeep [DL;DL]) (PKeep [DR])) (PKeep [DL;DR]) else POld [] (PKeep [DR]) (PKeep [DL]) end)", "C07",
     "plan of the chained commutative swap allocates a new inner node (the code re-uses the left child's object)"),
    ("lexer-functions", "Lexer.v", "let here := if is_function_name v then", "let here := if false then", "C11", "sgn lexed as three variables"),
]


def run(cmd, **kw):
    return subprocess.run(cmd, capture_output=True, text=True, **kw)


def main():
    only = sys.argv[1:]
    results = []
    for name, fn, old, new, prop, what in MUTANTS:
        if only and name not in only and prop not in only:
            continue
        d = tempfile.mkdtemp(prefix="modelmut_", dir="/tmp")
        try:
            shutil.copytree(os.path.join(COQ, "theories"), os.path.join(d, "theories"), ignore=shutil.ignore_patterns("*.vo", "*.glob", "*.aux", "*.vos", "*.vok", ".*"))
            shutil.copytree(os.path.join(COQ, "extraction"), os.path.join(d, "extraction"))
            p = os.path.join(d, "theories", fn)
            src = open(p).read()
            if src.count(old) != 1:
                results.append(dict(mutant=name, outcome=f"mutation site not found exactly once ({src.count(old)})"))
                print(results[-1], flush=True)
                continue
            open(p, "w").write(src.replace(old, new))
            proj = "-Q theories Mathy\n" + "\n".join("theories/" + f for f in sorted(os.listdir(os.path.join(d, "theories"))) if f.endswith(".v")) + "\n"
            open(os.path.join(d, "_CoqProject"), "w").write(proj)
            r = run(["bash", "-c", "coq_makefile -f _CoqProject -o Makefile >/dev/null 2>&1 && timeout 900 make -j8 2>&1 | tail -5"], cwd=d)
            ex = os.path.join(d, "ex")
            os.makedirs(ex)
            r1 = run(["timeout", "600", "coqc", "-Q", os.path.join(d, "theories"), "Mathy", os.path.join(d, "extraction", "Extract.v")], cwd=ex)
            if r1.returncode != 0:
                results.append(dict(mutant=name, outcome="mutant does not compile", log=(r.stdout + r1.stdout + r1.stderr)[-300:]))
                print(results[-1], flush=True)
                continue
            shutil.copy(os.path.join(d, "extraction", "main.ml"), os.path.join(ex, "main.ml"))
            r2 = run(["ocamlfind", "ocamlopt", "-w", "-a", "model.mli", "model.ml", "main.ml", "-o", "driver"], cwd=ex)
            if r2.returncode != 0:
                results.append(dict(mutant=name, outcome="driver does not build", log=r2.stderr[-300:]))
                print(results[-1], flush=True)
                continue
            env = dict(os.environ, VERIF_DRIVER=os.path.join(ex, "driver"), VERIF_NO_XCHECK="1")
            rc = run(["/venv/bin/python", os.path.join(V, "harness", "vcheck.py"), prop, "--tier", "quick"], cwd=V, env=env)
            import re
            m = re.search(r"disagreements=(\d+)", rc.stdout + rc.stderr)
            noticed = rc.returncode != 0 and "VIOLATION" in rc.stdout and bool(m and int(m.group(1)) > 0)
            results.append(dict(mutant=name, file=fn, what=what, check=prop, noticed=noticed, disagreements=int(m.group(1)) if m else None))
            print(results[-1], flush=True)
        finally:
            shutil.rmtree(d, ignore_errors=True)
    out = os.path.join(V, "seeded", "model-mutants.json")
    if not only:
        json.dump(dict(note="mutation test of the MODEL against the correspondence (harness/modelmut.py); the implementation is unchanged", results=results), open(out, "w"), indent=1)
    print("not noticed:", [r for r in results if not r.get("noticed")])
    # restore evidence written by the mutant runs
    subprocess.run(["git", "-C", V, "checkout", "--", "evidence"], capture_output=True)


if __name__ == "__main__":
    main()
