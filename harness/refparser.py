"""Independent reference parser for the DOCUMENTED grammar (parser.py docstring, read as in DESIGN 3.5):
operators mandatory, every binary level iterates left to right, an exponent after a run of factors binds
to the last factor only, '-' directly before a literal makes a negative literal, factorial of a literal.
`right_nested=True` gives the same language with the product level nested to the right (what the
implementation does; finding P2). Produces pyside tuple-form trees; raises Reject on strings outside
the language. Written from the documentation, not from the Coq model."""
import re
from fractions import Fraction as F


class Reject(Exception):
    pass


TOKEN_RE = re.compile(r"[0-9.]+|[A-Za-z]+|.", re.S)
ALIASES = {"–": "-", "[": "(", "]": ")"}
FUNCS = {"sgn"}


def lex(s):
    out = []
    for m in TOKEN_RE.finditer(s):
        w = m.group(0)
        c = w[0]
        if c.isdigit() and c.isascii() or c == ".":
            out.append(("num", w))
        elif c.isascii() and c.isalpha():
            if w in FUNCS:
                out.append(("fn", w))
            else:
                out.extend(("var", ch) for ch in w)
        elif w in " \t\r\n":
            continue
        else:
            w = ALIASES.get(w, w)
            if w in "+-*/^!()=":
                out.append((w, w))
            else:
                raise Reject(f"unsupported character {w!r}")
    out.append(("eof", ""))
    return out


def number(text):
    if "." in text:
        if text.count(".") != 1 or text == ".":
            raise Reject("malformed number")
        a, b = text.split(".")
        return ("c", ("f", F(int(a + b or "0"), 10 ** len(b))))
    return ("c", ("i", int(text)))


def negate_literal(c):
    n = c[1]
    return ("c", (n[0], -n[1]))


FIRST_FACTOR = {"var", "fn", "("}


class RefParser:
    def __init__(self, toks, right_nested=False):
        self.t = toks
        self.i = 0
        self.right_nested = right_nested

    def peek(self):
        return self.t[self.i][0]

    def take(self, kind=None):
        k, v = self.t[self.i]
        if kind is not None and k != kind:
            raise Reject(f"expected {kind}, got {k}")
        if k == "eof":
            raise Reject("past the end")
        self.i += 1
        return v

    def equal(self):
        e = self.add()
        while self.peek() == "=":
            self.take()
            e = ("eq", e, self.add())
        return e

    def add(self):
        e = self.mult()
        while self.peek() in "+-" and self.peek() != "":
            op = self.take()
            r = self.mult()
            e = ("add" if op == "+" else "sub", e, r)
        return e

    def mult(self):
        e = self.exp()
        if self.right_nested:
            while self.peek() in ("*", "/"):
                op = self.take()
                r = self.mult()
                e = ("mul" if op == "*" else "div", e, r)
            return e
        while self.peek() in ("*", "/"):
            op = self.take()
            r = self.exp()
            e = ("mul" if op == "*" else "div", e, r)
        return e

    def exp(self):
        e = self.unary()
        if self.peek() == "^":
            self.take()
            e = ("pow", e, self.unary())
        return e

    def unary(self):
        neg = False
        if self.peek() == "-":
            self.take()
            neg = True
        if self.peek() == "num":
            c = number(self.take())
            if neg:
                c = negate_literal(c)
            if self.peek() == "!":
                self.take()
                return ("fact", c)
            if self.peek() in FIRST_FACTOR:
                return ("mul", c, self.factors())
            return c
        if self.peek() in FIRST_FACTOR:
            f = self.factors()
            return ("neg", f) if neg else f
        raise Reject("expected a factor")

    def factors(self):
        atoms = [self.atom()]
        while self.peek() in FIRST_FACTOR:
            atoms.append(self.atom())
        if self.peek() == "^":
            self.take()
            atoms[-1] = ("pow", atoms[-1], self.unary())
        e = atoms[0]
        for a in atoms[1:]:
            e = ("mul", e, a)
        return e

    def atom(self):
        k = self.peek()
        if k == "var":
            return ("v", ord(self.take()))
        if k == "fn":
            self.take()
            self.take("(")
            e = self.add()
            self.take(")")
            return ("sgn", e)
        if k == "(":
            self.take()
            e = self.add()
            self.take(")")
            return e
        raise Reject("expected an atom")


def ref_parse(s, right_nested=False):
    toks = lex(s)
    p = RefParser(toks, right_nested)
    if p.peek() == "eof":
        raise Reject("empty")
    e = p.equal()
    if p.peek() != "eof":
        raise Reject("trailing tokens")
    return e


def operand_tokens(s):
    """the Constant / Variable tokens of s, in order (for 'no operand dropped, duplicated or reordered')."""
    out = []
    for k, v in lex(s):
        if k == "num":
            out.append(("num", v))
        elif k == "var":
            out.append(("var", v))
    return out


def leaves(t):
    if t[0] == "c":
        return [("num", t[1])]
    if t[0] == "v":
        return [("var", chr(t[1]))]
    out = []
    for a in t[1:]:
        out += leaves(a)
    return out
